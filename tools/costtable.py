#!/usr/bin/env python3
"""tools/costtable.py <quick sweep log> <thorough sweep log>: rewrite the table of DESIGN.md section 7 from the
lines 'seed=S Cxx exit=0 HELD ... evaluations=N distinct_nontrivial=M wall=Ts' of two sweep logs"""
import collections
import re
import sys


def read(fn):
    d = collections.defaultdict(list)
    for ln in open(fn, errors='replace'):
        m = re.search(r'seed=(\d+) (C\d\d) exit=(\d) (\w+) .*evaluations=(\d+) distinct_nontrivial=(\d+) wall=([\d.]+)s', ln)
        if m:
            d[m.group(2)].append((int(m.group(1)), m.group(4), int(m.group(5)), int(m.group(6)), float(m.group(7))))
    return d


def main():
    q, t = read(sys.argv[1]), read(sys.argv[2])
    rows = ['| id | quick: wall (s), seeds | evaluations / distinct non-trivial (quick) | thorough: wall (s) | evaluations / distinct non-trivial (thorough) |',
            '|----|------|------|------|------|']
    for k in range(1, 21):
        c = 'C%02d' % k
        qs, ts = q.get(c, []), t.get(c, [])
        qw = '%.0f-%.0f, %d seeds' % (min(x[4] for x in qs), max(x[4] for x in qs), len(qs)) if qs else '-'
        qe = '%d / %d' % (qs[0][2], qs[0][3]) if qs else '-'
        tw = '%.0f' % ts[0][4] if ts else '-'
        te = '%d / %d' % (ts[0][2], ts[0][3]) if ts else '-'
        bad = [x for x in qs + ts if x[1] != 'HELD']
        rows.append('| %s | %s | %s | %s | %s |%s' % (c, qw, qe, tw, te, ' (not HELD: %s)' % bad if bad else ''))
    s = open('DESIGN.md').read()
    a = s.index('## 7. Cost')
    b = s.index('## 8. ')
    head = ('## 7. Cost (16 cores, wall time, measured on the unchanged tree)\n\n'
            'From the last sweeps on the final tree (`tools/sweep.sh`; quick: %s, thorough: %s; the thorough sweep shared\n'
            'the machine with other work, its wall times are upper bounds). All runs HELD.\n\n' % (sys.argv[3], sys.argv[4]))
    open('DESIGN.md', 'w').write(s[:a] + head + '\n'.join(rows) + '\n\n' + s[b:])


main()
