#!/bin/bash
# tools/try_seeded.sh <seeded id> <check> [<check>...]: apply a seeded patch to /repo, run checks (quick), undo
id=$1; shift
test -z "$(git -C /repo status --porcelain --untracked-files=no)" || { echo "repo dirty"; exit 2; }
P=/verif/seeded/$id/patch.diff; test -f /verif/seeded/$id/patch_rebased.diff && P=/verif/seeded/$id/patch_rebased.diff
git -C /repo apply $P || { echo "$id: patch does not apply"; git -C /repo reset -q --hard HEAD; exit 2; }
for c in "$@"; do
  tier=quick; case $c in *:*) tier=${c#*:}; c=${c%:*};; esac
  out=$(cd /verif && /venv/bin/python -m yvm $c --tier $tier 2>&1); rc=$?
  echo "$id $c($tier) exit=$rc | $(echo "$out" | grep -E '^(VIOLATION|INCONCLUSIVE|KNOWN)' | head -3 | cut -c1-160 | tr '\n' '|')"
done
git -C /repo checkout -- . ; git -C /repo reset -q
