#!/bin/bash
# tools/try_seeded.sh <seeded id> <check>[:tier] ...: apply a seeded patch to a SCRATCH worktree of /repo's HEAD
# (never to /repo itself), run the checks against it (YVM_REPO), clean up
id=$1; shift
S=$(/verif/tools/scratch.sh)
P=/verif/seeded/$id/patch.diff; test -f /verif/seeded/$id/patch_rebased.diff && P=/verif/seeded/$id/patch_rebased.diff
git -C $S apply $P || { echo "$id: patch does not apply"; exit 2; }
for c in "$@"; do
  tier=quick; case $c in *:*) tier=${c#*:}; c=${c%:*};; esac
  out=$(cd /verif && YVM_REPO=$S /venv/bin/python -m yvm $c --tier $tier 2>&1); rc=$?
  echo "$id $c($tier) exit=$rc | $(echo "$out" | grep -E '^(VIOLATION|INCONCLUSIVE|KNOWN)' | head -3 | cut -c1-160 | tr '\n' '|')"
done
git -C $S reset -q --hard
