#!/usr/bin/env python3
"""development aid: apply a one-off textual mutation to a file in a SCRATCH worktree of /repo (CRLF preserved),
run the given checks (quick), restore the file.  usage:
   tools/mut.py yalafi/utils.py 'old text' 'new text' C13 [C01 ...]
Exit 0 if every listed check reported a violation (mutant caught)."""
import subprocess, sys, os
f, old, new, checks = sys.argv[1], sys.argv[2], sys.argv[3], sys.argv[4:]
S = subprocess.run(['/verif/tools/scratch.sh'], capture_output=True, text=True).stdout.strip()
p = os.path.join(S, f)
src = open(p, newline='').read()
old = old.replace('\\n', '\r\n'); new = new.replace('\\n', '\r\n')
assert src.count(old) == 1, 'pattern occurs %d times' % src.count(old)
open(p, 'w', newline='').write(src.replace(old, new))
ok = True
try:
    for c in checks:
        extra = []
        if ':' in c:
            c, t = c.split(':'); extra = ['--tier', t]
        r = subprocess.run(['/venv/bin/python', '-m', 'yvm', c] + extra, cwd='/verif', capture_output=True, text=True, env=dict(os.environ, YVM_REPO=S))
        lines = [l for l in r.stdout.splitlines() if l.startswith(('VIOLATION', 'INCONCLUSIVE', 'HELD', 'KNOWN', 'VIOLATED'))]
        print(c, 'exit', r.returncode, '|', ' | '.join(l[:150] for l in lines[:4]))
        if r.returncode != 1:
            ok = False
finally:
    subprocess.run(['git', '-C', S, 'checkout', '--', f])
sys.exit(0 if ok else 1)
