#!/bin/bash
# (re)create a pristine scratch worktree of /repo's HEAD for mutant runs: /tmp/wt/scratch
# mutants are applied THERE (YVM_REPO=/tmp/wt/scratch), never in /repo
S=${YVM_SCRATCH:-/tmp/wt/scratch}
if [ -d $S ]; then git -C $S checkout -q --detach $(git -C /repo rev-parse HEAD) 2>/dev/null && git -C $S reset -q --hard && git -C $S clean -qfd; else git -C /repo worktree add -q --detach $S HEAD; fi
echo $S
