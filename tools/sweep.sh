#!/bin/bash
# tools/sweep.sh "<seeds>" [tier] [checks...]: run checks over several seeds, print one line per run
seeds=${1:-"1 2 3"}; tier=${2:-quick}; shift; shift
checks=${@:-$(python3 -c "import json;print(' '.join(c['property_id'] for c in json.load(open('MANIFEST.json'))['checks']))")}
for s in $seeds; do for c in $checks; do
  out=$(VERIF_SEED=$s PYTHONHASHSEED=0 /venv/bin/python -m yvm $c --tier $tier 2>&1); rc=$?
  echo "seed=$s $c exit=$rc $(echo "$out" | grep -E '^(HELD|VIOLATED|INCONCLUSIVE) ' | cut -c1-120)"
  if [ $rc -ne 0 ]; then echo "$out" | grep -E '^(VIOLATION|INCONCLUSIVE|WORKER|HARNESS|KNOWN)' | head -5 | cut -c1-300; fi
done; done
