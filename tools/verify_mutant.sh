#!/bin/bash
# verify a sub-agent mutant independently: tools/verify_mutant.sh C05a
# applies MUTANT/patch.diff to a fresh scratch worktree of the PINNED commit, runs the repository
# tests (serially, under the lock) and the demo with / without the change; then stores it under /verif/seeded
set -u
id=$1
src=/tmp/wt/$id/MUTANT
wt=/tmp/wt/verify_$id
base=${2:-005d6e3}
git -C /repo worktree add --detach $wt $base -q || exit 2
cp -r $src $wt/MUTANT
cd $wt
r_without=$( /venv/bin/python MUTANT/demo.py >/dev/null 2>&1; echo $? )
git apply MUTANT/patch.diff || { echo "$id: patch does not apply"; cd /; git -C /repo worktree remove --force $wt; exit 2; }
r_with=$( /venv/bin/python MUTANT/demo.py > MUTANT/demo_with.out 2>&1; echo $? )
tests=$( flock /tmp/yalafi-tests.lock /venv/bin/python -m pytest -q -p no:cacheprovider --timeout=900 2>&1 | tail -1 )
stat=$(git diff --stat -- yalafi | tail -1)
echo "$id: demo_without=$r_without demo_with=$r_with tests='$tests' diff='$stat'"
mkdir -p /verif/seeded/$id
cp MUTANT/patch.diff MUTANT/demo.py /verif/seeded/$id/
for f in MUTANT/*.py; do cp $f /verif/seeded/$id/; done
python3 - "$id" "$r_without" "$r_with" "$tests" "$base" <<'PY'
import json, sys
id, rwo, rw, tests = sys.argv[1:5]
m = json.load(open('MUTANT/meta.json'))
m['verified_by_main'] = {'base_commit': sys.argv[5], 'demo_without_change_exit': int(rwo), 'demo_with_change_exit': int(rw),
                         'repo_tests_with_change': tests,
                         'ran': 'fresh worktree of the pinned commit; python MUTANT/demo.py; git apply MUTANT/patch.diff; python MUTANT/demo.py; python -m pytest -q (serial)'}
json.dump(m, open('/verif/seeded/%s/meta.json' % id, 'w'), indent=1)
PY
cd /
git -C /repo worktree remove --force $wt
