#!/bin/bash
# tools/retry_all.sh [pattern]: run every stored seeded change (seeded/<pattern>, default C???) against the check of
# its property at quick tier, in a scratch worktree of its own; one line per change
cd /verif
export YVM_SCRATCH=${YVM_SCRATCH:-/tmp/wt/scratch2}
for i in seeded/${1:-C???}; do id=$(basename $i); tools/try_seeded.sh $id ${id:0:3} 2>&1 | cut -c1-150 | sed 's/KNOWN-FINDING[^|]*|//g'; done
echo RETRY-DONE
