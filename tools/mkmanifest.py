#!/venv/bin/python
"""regenerate MANIFEST.json from the check classes under yvm/checks (development aid)"""
import glob, json, os, sys
sys.path.insert(0, '/verif')
from yvm import checks
props = [json.loads(l) for l in open('/verif/properties.jsonl')]
built = sorted(os.path.basename(f)[:-3].upper() for f in glob.glob('/verif/yvm/checks/c[0-9][0-9].py'))
NA = json.load(open('/verif/tools/not_applicable.json')) if os.path.exists('/verif/tools/not_applicable.json') else {}
m = {
 "version": 1,
 "setup_cmd": "/venv/bin/python -m yvm.selfcheck",
 "hooks": {
  "guard": "YALAFI_VERIF",
  "enable": "no source hooks in /repo: all monitors are attached from the harness process (python -m yvm ...), which imports yalafi from /repo's working tree at run time; YALAFI_VERIF=1 is set for child processes only as a marker",
  "baseline_off_cmd": "cd /repo && /venv/bin/python -m pytest -q -p no:cacheprovider --timeout=900",
  "source_commits": [],
  "add_only": True
 },
 "engines": [{"name": "yvm", "path": "/verif/yvm", "serves_properties": built,
              "kind_free_text": "runtime monitoring: generated / hostile / fault-injected workloads drive the real tex2txt, CLI and shell; reference-model and invariant oracles judge every observed execution; three-valued verdicts"}],
 "checks": [], "not_applicable": [],
 "notes": "Every check: `python -m yvm <id> --tier quick|thorough`, honours VERIF_SEED; exit 0 held, 1 violation (VIOLATION line + replay file), 2 inconclusive (INCONCLUSIVE line: monitor not reached / worker died; never folded into held). Known findings: /verif/known_findings.json."
}
for p in props:
    pid = p['id']
    if pid in built and pid not in NA:
        c = checks.get(pid)
        m['checks'].append({
            "property_id": pid,
            "quick_cmd": "/venv/bin/python -m yvm %s --tier quick" % pid,
            "thorough_cmd": "/venv/bin/python -m yvm %s --tier thorough" % pid,
            "evidence_file": "/verif/evidence/%s.json" % pid,
            "replay_cmd_template": "/venv/bin/python -m yvm %s --replay {path}" % pid,
            "engine": "yvm",
            "level_claimed": {"category": c.level, "text": c.level_text, "design_ref": c.design_ref},
            "level_note": c.level_note,
            "technique": c.technique,
        })
    else:
        m['not_applicable'].append({"property_id": pid, "reason": NA.get(pid, "check not built yet (work in progress; see DESIGN.md section 9)")})
json.dump(m, open('/verif/MANIFEST.json', 'w'), indent=1)
print('claimed:', [c['property_id'] for c in m['checks']])
