#!/usr/bin/env python3
"""CRLF-preserving exact replacement in a /repo file: repoedit.py FILE OLD NEW  (use \\n for line ends)"""
import sys, os
f, old, new = sys.argv[1:4]
p = os.path.join('/repo', f)
src = open(p, newline='').read()
old = old.replace('\\n', '\r\n'); new = new.replace('\\n', '\r\n')
assert src.count(old) == 1, 'pattern occurs %d times' % src.count(old)
open(p, 'w', newline='').write(src.replace(old, new))
