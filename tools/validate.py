#!/opt/veriftools/pyvenv/bin/python
"""validate MANIFEST.json and evidence files against the given schemas (development aid)"""
import json, sys, glob, jsonschema
ms = json.load(open('/root/.vp/MANIFEST.schema.json'))
es = json.load(open('/root/.vp/EVIDENCE.schema.json'))
m = json.load(open('/verif/MANIFEST.json'))
jsonschema.validate(m, ms)
ids = [json.loads(l)['id'] for l in open('/verif/properties.jsonl')]
claimed = [c['property_id'] for c in m['checks']]
na = [c['property_id'] for c in m.get('not_applicable', [])]
assert sorted(claimed + na) == sorted(ids), (claimed, na)
for f in sorted(glob.glob('/verif/evidence/*.json')):
    jsonschema.validate(json.load(open(f)), es)
    print('ok', f)
print('manifest ok; claimed', claimed)
