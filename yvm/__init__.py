"""yvm: YaLafi verification monitors (runtime monitoring of the real code)."""
