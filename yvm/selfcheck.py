"""setup_cmd: nothing to build (pure stdlib); verify that the pieces are importable"""
import sys
from . import env
y = env.import_yalafi()
from . import core, tex, checks  # noqa
print('yvm ok: python %s, yalafi from %s' % (sys.version.split()[0], y.__file__))
