"""Running the real `python -m yalafi.shell` with the programmable fake proofreader."""
import json
import os
import shutil
import subprocess
import tempfile

from . import env

FAKELT = os.path.join(os.path.dirname(os.path.abspath(__file__)), 'fakelt.py')


class ShellResult:
    pass


def run_shell(args, files, plan=None, timeout=180, workdir=None, stdin=None, lt_command=None):
    """args: option list; files: {relative name: text or bytes}; plan: dict for the fake proofreader.
    -> ShellResult(rc, out, err, calls=[{argv, text}], timed_out)"""
    d = tempfile.mkdtemp(prefix='yvm_sh_', dir=workdir)
    res = ShellResult()
    try:
        for name, content in files.items():
            p = os.path.join(d, name)
            os.makedirs(os.path.dirname(p), exist_ok=True)
            if isinstance(content, bytes):
                with open(p, 'wb') as f:
                    f.write(content)
            else:
                with open(p, 'w', encoding='utf-8', newline='') as f:
                    f.write(content)
        log = os.path.join(d, '_lt.log')
        planf = os.path.join(d, '_lt.plan')
        with open(planf, 'w') as f:
            json.dump(plan or {'mode': 'empty'}, f)
        ltc = lt_command if lt_command is not None else '%s -S %s' % (env.PY, FAKELT)
        cmd = [env.PY, '-m', 'yalafi.shell', '--no-config', '--lt-command', ltc] + list(args)
        e = env.child_env({'YVM_LT_LOG': log, 'YVM_LT_PLAN': planf})
        res.cmd = cmd
        try:
            pr = subprocess.run(cmd, capture_output=True, timeout=timeout, cwd=d, env=e, input=stdin)
            res.rc = pr.returncode
            res.out = pr.stdout
            res.err = pr.stderr.decode('utf-8', 'replace')
            res.timed_out = False
        except subprocess.TimeoutExpired:
            res.rc = None
            res.out = b''
            res.err = ''
            res.timed_out = True
        res.calls = []
        if os.path.exists(log):
            with open(log) as f:
                res.calls = [json.loads(ln) for ln in f if ln.strip()]
    finally:
        shutil.rmtree(d, ignore_errors=True)
    return res


def run_server_request(args, text, plan, language='en-GB', workdir=None, timeout=60):
    """start `yalafi.shell --as-server <free port>` with the fake proofreader, POST one LanguageTool-style request,
    stop the server.  -> ShellResult(rc = HTTP status or None, out = body bytes, err = server stderr, timed_out)"""
    import socket
    import time
    import urllib.error
    import urllib.parse
    import urllib.request
    d = tempfile.mkdtemp(prefix='yvm_srv_', dir=workdir)
    res = ShellResult()
    res.calls = []
    try:
        s0 = socket.socket()
        s0.bind(('localhost', 0))
        port = s0.getsockname()[1]
        s0.close()
        planf = os.path.join(d, '_lt.plan')
        with open(planf, 'w') as f:
            json.dump(plan or {'mode': 'empty'}, f)
        errf = open(os.path.join(d, '_stderr'), 'wb')
        cmd = [env.PY, '-m', 'yalafi.shell', '--no-config', '--lt-command', '%s -S %s' % (env.PY, FAKELT),
               '--as-server', str(port)] + list(args)
        srv = subprocess.Popen(cmd, cwd=d, env=env.child_env({'YVM_LT_PLAN': planf, 'YVM_LT_LOG': os.path.join(d, '_lt.log')}),
                               stdout=subprocess.DEVNULL, stderr=errf)
        res.cmd = cmd
        t0 = time.time()
        up = False
        while time.time() - t0 < timeout:
            try:
                socket.create_connection(('localhost', port), timeout=1).close()
                up = True
                break
            except OSError:
                if srv.poll() is not None:
                    break
                time.sleep(0.1)
        res.timed_out = not up
        res.rc, res.out = None, b''
        if up:
            data = urllib.parse.urlencode({'text': text, 'language': language}).encode('ascii')
            try:
                with urllib.request.urlopen('http://localhost:%d/v2/check' % port, data=data, timeout=timeout) as rp:
                    res.rc = rp.status
                    res.out = rp.read()
            except urllib.error.HTTPError as e:
                res.rc = e.code
                res.out = e.read()
            except (OSError, ValueError) as e:
                res.rc = None
                res.out = ('%s: %s' % (type(e).__name__, e)).encode()
        srv.terminate()
        try:
            srv.wait(timeout=10)
        except subprocess.TimeoutExpired:
            srv.kill()
        errf.close()
        res.err = open(os.path.join(d, '_stderr'), 'rb').read().decode('utf-8', 'replace')
    finally:
        shutil.rmtree(d, ignore_errors=True)
    return res
