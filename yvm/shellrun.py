"""Running the real `python -m yalafi.shell` with the programmable fake proofreader."""
import json
import os
import shutil
import subprocess
import tempfile

from . import env

FAKELT = os.path.join(os.path.dirname(os.path.abspath(__file__)), 'fakelt.py')


class ShellResult:
    pass


def run_shell(args, files, plan=None, timeout=180, workdir=None, stdin=None, lt_command=None):
    """args: option list; files: {relative name: text or bytes}; plan: dict for the fake proofreader.
    -> ShellResult(rc, out, err, calls=[{argv, text}], timed_out)"""
    d = tempfile.mkdtemp(prefix='yvm_sh_', dir=workdir)
    res = ShellResult()
    try:
        for name, content in files.items():
            p = os.path.join(d, name)
            os.makedirs(os.path.dirname(p), exist_ok=True)
            if isinstance(content, bytes):
                with open(p, 'wb') as f:
                    f.write(content)
            else:
                with open(p, 'w', encoding='utf-8', newline='') as f:
                    f.write(content)
        log = os.path.join(d, '_lt.log')
        planf = os.path.join(d, '_lt.plan')
        with open(planf, 'w') as f:
            json.dump(plan or {'mode': 'empty'}, f)
        ltc = lt_command if lt_command is not None else '%s -S %s' % (env.PY, FAKELT)
        cmd = [env.PY, '-m', 'yalafi.shell', '--no-config', '--lt-command', ltc] + list(args)
        e = env.child_env({'YVM_LT_LOG': log, 'YVM_LT_PLAN': planf})
        res.cmd = cmd
        try:
            pr = subprocess.run(cmd, capture_output=True, timeout=timeout, cwd=d, env=e, input=stdin)
            res.rc = pr.returncode
            res.out = pr.stdout
            res.err = pr.stderr.decode('utf-8', 'replace')
            res.timed_out = False
        except subprocess.TimeoutExpired:
            res.rc = None
            res.out = b''
            res.err = ''
            res.timed_out = True
        res.calls = []
        if os.path.exists(log):
            with open(log) as f:
                res.calls = [json.loads(ln) for ln in f if ln.strip()]
    finally:
        shutil.rmtree(d, ignore_errors=True)
    return res
