"""Running the real `python -m yalafi.shell` with the programmable fake proofreader."""
import json
import os
import shutil
import subprocess
import tempfile

from . import env

FAKELT = os.path.join(os.path.dirname(os.path.abspath(__file__)), 'fakelt.py')


class ShellResult:
    pass


def run_shell(args, files, plan=None, timeout=180, workdir=None, stdin=None, lt_command=None):
    """args: option list; files: {relative name: text or bytes}; plan: dict for the fake proofreader.
    -> ShellResult(rc, out, err, calls=[{argv, text}], timed_out)"""
    d = tempfile.mkdtemp(prefix='yvm_sh_', dir=workdir)
    res = ShellResult()
    try:
        for name, content in files.items():
            p = os.path.join(d, name)
            os.makedirs(os.path.dirname(p), exist_ok=True)
            if isinstance(content, bytes):
                with open(p, 'wb') as f:
                    f.write(content)
            else:
                with open(p, 'w', encoding='utf-8', newline='') as f:
                    f.write(content)
        log = os.path.join(d, '_lt.log')
        planf = os.path.join(d, '_lt.plan')
        with open(planf, 'w') as f:
            json.dump(plan or {'mode': 'empty'}, f)
        ltc = lt_command if lt_command is not None else '%s -S %s' % (env.PY, FAKELT)
        cmd = [env.PY, '-m', 'yalafi.shell', '--no-config', '--lt-command', ltc] + list(args)
        e = env.child_env({'YVM_LT_LOG': log, 'YVM_LT_PLAN': planf})
        res.cmd = cmd
        try:
            pr = subprocess.run(cmd, capture_output=True, timeout=timeout, cwd=d, env=e, input=stdin)
            res.rc = pr.returncode
            res.out = pr.stdout
            res.err = pr.stderr.decode('utf-8', 'replace')
            res.timed_out = False
        except subprocess.TimeoutExpired:
            res.rc = None
            res.out = b''
            res.err = ''
            res.timed_out = True
        res.calls = []
        if os.path.exists(log):
            with open(log) as f:
                res.calls = [json.loads(ln) for ln in f if ln.strip()]
    finally:
        shutil.rmtree(d, ignore_errors=True)
    return res


def free_port():
    import socket
    s = socket.socket()
    s.bind(('localhost', 0))
    p = s.getsockname()[1]
    s.close()
    return p


def listens(pid, port):
    """does process pid hold a listening TCP socket on the port? (a successful connection alone does not say whose
    server answered: another process may have taken the port between our probe and the server's bind)"""
    inodes = set()
    for fn in ('/proc/net/tcp', '/proc/net/tcp6'):
        try:
            with open(fn) as f:
                for ln in f.readlines()[1:]:
                    x = ln.split()
                    if x[3] == '0A' and int(x[1].rsplit(':', 1)[1], 16) == port:
                        inodes.add(x[9])
        except OSError:
            pass
    if not inodes:
        return False
    try:
        for fd in os.listdir('/proc/%d/fd' % pid):
            try:
                t = os.readlink('/proc/%d/fd/%s' % (pid, fd))
            except OSError:
                continue
            if t.startswith('socket:[') and t[8:-1] in inodes:
                return True
    except OSError:
        pass
    return False


def launch_server(make_cmd, cwd, make_env, stderr_path, timeout=60, attempts=6):
    """start a server process on a free port and wait until it listens there.
    -> (process, port) or (None, None); a lost race for the port (the server ends with 'Address already in use')
    is a matter of the harness and retried with another port; the server's stderr goes to stderr_path"""
    import time
    for _ in range(attempts):
        port = free_port()
        with open(stderr_path, 'wb') as errf:
            srv = subprocess.Popen(make_cmd(port), cwd=cwd, env=make_env(port), stdout=subprocess.DEVNULL, stderr=errf)
        t0 = time.time()
        while time.time() - t0 < timeout:
            if srv.poll() is not None:
                break
            if listens(srv.pid, port):
                return srv, port
            time.sleep(0.05)
        if srv.poll() is None:
            srv.kill()
            srv.wait()
            return None, None
        try:
            with open(stderr_path, 'rb') as f:
                err = f.read().decode('utf-8', 'replace')
        except OSError:
            err = ''
        if 'Address already in use' not in err:
            return None, None
    return None, None


def run_server_request(args, text, plan, language='en-GB', workdir=None, timeout=60):
    """start `yalafi.shell --as-server <free port>` with the fake proofreader, POST one LanguageTool-style request,
    stop the server.  -> ShellResult(rc = HTTP status or None, out = body bytes, err = server stderr, timed_out)"""
    import socket
    import time
    import urllib.error
    import urllib.parse
    import urllib.request
    d = tempfile.mkdtemp(prefix='yvm_srv_', dir=workdir)
    res = ShellResult()
    res.calls = []
    try:
        planf = os.path.join(d, '_lt.plan')
        with open(planf, 'w') as f:
            json.dump(plan or {'mode': 'empty'}, f)
        errp = os.path.join(d, '_stderr')

        def make_cmd(port):
            return [env.PY, '-m', 'yalafi.shell', '--no-config', '--lt-command', '%s -S %s' % (env.PY, FAKELT),
                    '--as-server', str(port)] + list(args)
        srv, port = launch_server(make_cmd, d, lambda port: env.child_env({'YVM_LT_PLAN': planf,
                                                                           'YVM_LT_LOG': os.path.join(d, '_lt.log')}),
                                  errp, timeout=timeout)
        up = srv is not None
        res.cmd = make_cmd(port)
        res.timed_out = not up
        res.rc, res.out = None, b''
        if up:
            data = urllib.parse.urlencode({'text': text, 'language': language}).encode('ascii')
            try:
                with urllib.request.urlopen('http://localhost:%d/v2/check' % port, data=data, timeout=timeout) as rp:
                    res.rc = rp.status
                    res.out = rp.read()
            except urllib.error.HTTPError as e:
                res.rc = e.code
                res.out = e.read()
            except (OSError, ValueError) as e:
                res.rc = None
                res.out = ('%s: %s' % (type(e).__name__, e)).encode()
        if srv is not None:
            srv.terminate()
            try:
                srv.wait(timeout=10)
            except subprocess.TimeoutExpired:
                srv.kill()
        res.err = open(errp, 'rb').read().decode('utf-8', 'replace') if os.path.exists(errp) else ''
    finally:
        shutil.rmtree(d, ignore_errors=True)
    return res
