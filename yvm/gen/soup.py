"""Token soups and option sampler shared by C01 / C07 (hostile, malformed input)."""
from yalafi import parameters, parser as yparser, tex2txt

_VOCAB = None

FRAGMENTS = ['{', '}', '[', ']', '$', '$$', '\\[', '\\]', '\\(', '\\)', '&', '\\\\', '#', '#1', '#2', '#9', '%',
             '%x\n', '%%% LT-SKIP-BEGIN\n', '%%% LT-SKIP-END\n', '~', '_', '^', ' ', ' ', '\n', '\n\n', '\n \n',
             'a', 'B', 'w', '1', '0', '.', ',', ';', ':', '!', '?', '*', '=', '+', '-', '--', '---', '"', "'",
             '`', '``', "''", '/', '<', '>', '|', '@', '\\item', '\\item[', '\\item[x]', '\\verb', '\\verb|x|',
             '\\verb+', '\\begin', '\\end', '\\', '\\foo', '\\foo{x}', '\\def', '\\def\\x', '\\def\\x#1{#1}',
             '\\begin{verbatim}', '\\end{verbatim}', '\\begin{foo}', '\\end{foo}', "\\'", '\\"', '\\v', '\\c',
             '\\^', '\\`', '\\~', '\\=', '\\.', '\\,', '\\;', '\\!', '\\ ', 'é', 'ß', 'ŉ', 'ǰ', 'ﬁ',
             '\\LTinput{/nonexistent/file.tex}', '\\LTinput{', 'german', 'poorman', '{german}', '{english}',
             '{russian}', '{2}', '[1]', '[x]', '{\\x}', '{x}', '{}', '[]', '[', '\\newcommand{\\x}[1]{x #1 x}',
             '\\newcommand{\\y}[2][d]{#1 #2}', '\\renewcommand{\\x}{z}', '\\newcommand', '\\x', '\\y', '\\x{a}',
             '\\y[o]{a}', '\\newtheorem{thm}{Theorem}', '\\begin{thm}', '\\end{thm}', '\\begin{thm}[t]',
             '\\usepackage{babel}', '\\usepackage[german]{babel}', '\\usepackage[poorman]{cleveref}',
             '\\usepackage{nonexistent}', '\\documentclass{article}', '\\documentclass[ngerman]{scrartcl}',
             '\\selectlanguage{german}', '\\foreignlanguage{russian}{', '\\begin{otherlanguage}{french}',
             '\\end{otherlanguage}', '\\text{', '\\mbox{', '\\frac', '\\alpha', '\\label{k}', '\\\\[2ex]',
             '\\\\[', '\\gls{x}', '\\Gls{', '\\cref{x}', '\\YYCleverefInput{/nonexistent.sed}', '=1', 'key=val',
             '\x00', '\r', '\x0b', '\x0c', '\x1c', '\x1f', '\x85', '\xa0', '\u2028', '\u3000', '\u0301',
             '\u200f', '\U0001d538', '\t', '\\\t', '\\\n', '0pt', '\\hspace{0pt}', '\\hspace*{1cm}',
             '\\phantom{x}', '\\section*[s]{', '\\caption[', '\\footnote{', '\\footnote[1]{x}', '\\cite[',
             '\\cite{k}', '\\textcolor{red}{', '\\begin{itemize}', '\\end{itemize}', '\\begin{enumerate}',
             '\\end{enumerate}', '\\begin{tabular}{cc}', '\\end{tabular}', '\\begin{equation}',
             '\\end{equation}', '\\begin{align*}', '\\end{align*}', '\\begin{proof}', '\\end{proof}',
             '\\begin{tikzpicture}', '\\end{tikzpicture}', '\\begin{lstlisting}', '\\end{lstlisting}',
             '\\begin{yvmremoved}', '\\end{yvmremoved}', '\\begin{yvmequ}', '\\end{yvmequ}', '\\yvmswap',
             '\\yvmtwice{', '\\par', '\\LTadd{', '\\LTskip{', '\\LTalter{a}{', '\\begin {verbatim}',
             '\\begin\n{verbatim}',
             '\\documentclass[draft]{article}\\usepackage[draft=false]{hyperref}', '\\usepackage[final,final=true]{graphicx}',
             '\\usepackage[german]{babel}\\usepackage[german,german=x]{babel}', '\\documentclass[a=b,a]{book}\\usepackage{xcolor}',
             # long repetitions: counters, label generators, rotating collections and nesting stacks must not run out
             '\\begin{enumerate}\\begin{enumerate}' + '\\item x ' * 30, '\\begin{enumerate}' * 7 + '\\item a',
             '\\begin{itemize}' + '\\item ' * 60, '$x$ ' * 15, '\\[a\\] ' * 10, '\\footnote{a}' * 12, '{' * 40 + 'x' + '}' * 40,
             # a parameter character followed by digits that are no decimal digits
             '#\u00b2', '#\u2460', '#\u2081', '#\u0663', '#\uff12', '\\def\\x#\u00b9{#\u00b9}', '\\newcommand{\\x}[1]{#\u00b3}\\x{a}',
             # an accent whose argument begins with a language switch
             '\\"{\\foreignlanguage{german}{o}}', "\\'\\foreignlanguage{french}{e}", '\\"{\\selectlanguage{french}i}',
             '\\^{\\begin{otherlanguage}{german}o\\end{otherlanguage}}', '\\usepackage{babel}\\c{\\foreignlanguage{russian}{c}}',
             # keys given without a value
             '\\newglossaryentry{x}{name=a, description}', '\\newglossaryentry{x}{description,name={a}}\\gls{x}',
             '\\gls@defglossaryentry{x}{name,text,plural,first,description}\\gls{x} \\Glspl{x} \\glsdesc{x} \\GLS{x}',
             '\\longnewglossaryentry{x}{name}{}', '\\newacronym[description]{x}{}{}\\acrshort{x}',
             '\\begin{itemize}' * 12, '\\item[a] ' * 30, '\\foreignlanguage{german}{' * 8, '\\gls{x} ' * 8]


def vocab():
    global _VOCAB
    if _VOCAB is None:
        parms = parameters.Parameters('en')
        packs = (tex2txt.get_packages('*', parms.package_modules)
                 + tex2txt.get_packages('cleveref', parms.package_modules)
                 + tex2txt.get_packages('.yvm.ext', parms.package_modules))
        for c in ('article', 'book', 'report', 'scrartcl', 'scrbook', 'scrreprt'):
            packs += tex2txt.get_packages(c, parms.class_modules)
        p = yparser.Parser(parms, packs)
        macs = sorted(p.the_macros)
        envs = sorted(p.the_environments)
        global _ARGS
        _ARGS = {m: p.the_macros[m].args for m in macs}
        _ARGS.update({'\\begin{%s}' % e: p.the_environments[e].args for e in envs})
        _VOCAB = (macs, envs, macs + ['\\begin{%s}' % e for e in envs] + ['\\end{%s}' % e for e in envs]
                  + FRAGMENTS + FRAGMENTS)
    return _VOCAB


_ARGS = {}
ARG_A = ['{}', '{}', '{x}', '{description}', '{name,description}', '{text,first}', '{99999999999}', '{-1}', '{a=}{,b}', '{name=n,description=}{x}', '{k={v}', '{a b}', '{ }', 'x', '{\\foo}', '{%\n}', ' {}', '{german}', '{1}', '{x=y}', '', '{{}}',
         '{\\x}', '{$}', '{#1}', '{\u00b2}', '{\u2460}', '{\u0663}', '{ 2 }',
         # package / class / file names given as paths
         '{../styles/x}', '{.}', '{..}', '{amsmath, ../x ,babel}', '{./x}', '{/abs/x}', '{a..b}', '{.yvm.nonexistent}']
ARG_O = ['', '', '[]', '[x]', '[99999999999]', '[12]', '[0]', '[description]', '[-3]', '[ ]', '[1]', '[german]', '[a=b,c]', '[{]}]', '[', '[\\foo]', '[a=}{]', '[a={b},c=}{d]',
         '[a=}]', '[=]', '[,=,]', '[a={}]',
         # digits that are no decimal digits, non-ASCII decimal digits, blanks around a number
         '[a,a=b]', '[draft,draft=false]', '[final=true,final]',
         '[\u00b2]', '[\u2460]', '[1\u00b3]', '[\u0663]', '[\uff12]', '[ 2 ]', '[\u2155]', '[\u2082]']


def with_args(rnd, item):
    """a declared macro / \\begin{env} followed by an argument skeleton built from its declared
    argument codes: every argument empty, blank, single token, missing, braced ..."""
    code = _ARGS.get(item)
    if code is None:
        return item
    out = item
    for c in code:
        if c == '*':
            out += rnd.choice(['', '', '*'])
        elif c == 'O':
            out += rnd.choice(ARG_O)
        else:
            out += rnd.choice(ARG_A)
    return out


DEFS = [None, None, None,
        '\\newcommand{\\x}[1]{x #1 x}\n\\newcommand{\\zz}{zz}\n',
        '\\newcommand{\\x}{\\footnote{deffoot note text that is long}}\\x\n\\def\\y#1{(#1)}',
        '\\newcommand{\\vv}{\\verb|verbatim text in body|}\n\\newcommand{\\pp}{ \n\n}',
        '\\usepackage[german]{babel}\\selectlanguage{russian}\n',
        'stray text $x$ \\begin{equation} a \\end{equation} \\section{H}\n',
        '\\newcommand{\\x}[2][\\verb|dd| e]{#1 ee #2}\n\\LTinput{/nonexistent}\n',
        '%%% LT-SKIP-BEGIN\n', '{', '\\footnote{', '$', '\\begin{verbatim}']
REPLS = [None, None, None, ['a & bbbb\n'], ['w & \n', 'x x & y\n'], ['B & BBBBBBBBBBBBBBBBBBBBBBBBBBBBBBBBBB\n'],
         ['. & !!!!\n', '# c\n', ' & z\n'], ['LATEXXXERROR & e\n'], ['zz & longer replacement text here\n'],
         # deletions and replacements of words that the generated documents surely contain (macro bodies)
         ['ybodya & \n', 'ybodyc & yc\n'], ['ybodyb & \n', 'ybodyd ydflt & \n', 'ybodye & ybodye with more words\n']]
PACKS = ['*', '*', '*', '', '*,cleveref', '*,.yvm.ext', '*,cleveref,.yvm.ext', 'babel', 'amsmath,amsthm',
         'glossaries,biblatex', 'xspace,hyperref', 'nonexistentpack', 'tikz,listings,graphicx', '..x', '.', '../y,amsmath', ',', '*,']
DCLS = ['', '', '', 'article', 'book', 'report', 'scrartcl', 'scrbook', 'scrreprt', '../cls/thesis', '.', 'nonexistentclass']
LANGS = [None, 'en', 'de', 'ru', 'xx-YY', 'en-GB', 'de-DE', 'ru-RU', '']
EXTR = [None, None, None, None, 'footnote', 'input,include', 'section,foo', 'x,y,caption', 'item,verb']


def rand_opts(rnd, allow_unkn=True):
    o = dict(lang=rnd.choice(LANGS), pack=rnd.choice(PACKS), dcls=rnd.choice(DCLS))
    d = rnd.choice(DEFS)
    if d:
        o['defs'] = d
    e = rnd.choice(EXTR)
    if e:
        o['extr'] = e
    if rnd.random() < .25:
        o['seqs'] = True
    if rnd.random() < .15:
        o['nosp'] = True
    r = rnd.choice(REPLS)
    if r:
        o['repl'] = r
    if allow_unkn and rnd.random() < .08:
        o['unkn'] = True
    return o


def soup(rnd, maxlen=40):
    v = vocab()[2]
    n = rnd.randint(1, maxlen if rnd.random() < .3 else 14)
    if rnd.random() < .5:
        return ''.join(rnd.choice(v) for _ in range(n))
    return ''.join(with_args(rnd, rnd.choice(v)) if rnd.random() < .7 else rnd.choice(v) for _ in range(n))
