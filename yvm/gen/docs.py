"""Document generator with built-in reference semantics (DESIGN 3.1 / 3.2).

A document is printed construct by construct; the printer records exact source
offsets, and every construct appends what the documented filter semantics make of
it to the *expected stream* of the current text flow:

    (char, lo, hi, tag)     1-based inclusive position constraint; lo == hi: exact copy
    ('@I'|'@D', lo, hi, tag) one inline / display maths placeholder (5 characters)

White space is not part of the stream (text flow is C05's subject).
Visible words are unique ('w..'), hidden words are unique and are the only place
where a capital Q occurs ('h..Q').
"""
import collections
import re

DIG = '0123456789abcdefgijklmnoprstuvxyz'      # no h, q, w


def b33(n):
    s = ''
    while True:
        s = DIG[n % len(DIG)] + s
        n //= len(DIG)
        if n == 0:
            return s


class Doc:
    pass


TAB = {'---': '—', '--': '–', '``': '“', "''": '”', '~': '\xa0',
       '\\,': ' ', '\\%': '%', '\\&': '&', '\\$': '$', '\\#': '#', '\\_': '_',
       '\\{': '{', '\\}': '}'}
ACCENTS = [("\\'e", 'é'), ('\\`a', 'à'), ('\\^o', 'ô'), ('\\"u', 'ü'), ('\\~n', 'ñ'), ('\\c{c}', 'ç'),
           ("\\'{E}", 'É'), ('\\v s', 'š'), ('\\H{o}', 'ő'), ('\\.z', 'ż'),
           # accents on the special letters: \i, \j are no macros of the filter (the accent stands alone),
           # \ae, \o, \l, \ss are letters outside ASCII (composed character, or letter + combining accent)
           ("\\'{\\i}", '´'), ('\\"{\\i}', '¨'), ('\\^{\\j}', '^'), ("\\'{\\ae}", 'ǽ'), ("\\'{\\o}", 'ǿ'),
           ('\\v{\\l}', 'ł\u030c'), ('\\c{\\ss}', 'ß\u0327'), ('\\~{\\AE}', 'Æ\u0303')]
SHORT_DE = [('"a', 'ä'), ('"o', 'ö'), ('"U', 'Ü'), ('"s', 'ß'), ('"`', '„'), ('"\'', '“'), ('"=', '-')]

ALL_KINDS = ['word', 'word', 'atom', 'unk', 'unkarg', 'unkarg2', 'label', 'index', 'ref', 'cite', 'citeopt',
             'section', 'usersec', 'footnote', 'caption', 'textcolor', 'href', 'comment', 'skip', 'ltskip', 'ltadd', 'ltalter',
             'itemize', 'enumerate', 'itemlab', 'verb', 'verbatim', 'inline', 'display', 'tabular', 'proof',
             'theorem', 'tikz', 'usermac', 'usermac2', 'usermacopt', 'usermacoptonly', 'defmac', 'defbymac', 'latexname', 'texorpdf', 'framebox',
             'unkenv', 'figure', 'minipage', 'vanish', 'hspace', 'phantom', 'quad', 'newline', 'group',
             'textbackslash', 'gls', 'glsentry', 'url', 'tikzin', 'usermacml', 'usermacverb', 'removed_ext', 'twice_ext', 'mathtext', 'footcite', 'accent', 'lstlisting',
             'includegraphics', 'emph', 'par', 'cref']

ALL_PKGS = {'amsmath', 'amsthm', 'babel', 'biblatex', 'circuitikz', 'geometry', 'glossaries', 'graphicx',
            'hyperref', 'listings', 'mathtools', 'pgfplots', 'tikz', 'xcolor', 'xspace'}
KIND_PKG = {'textcolor': 'xcolor', 'href': 'hyperref', 'url': 'hyperref', 'tikzin': 'tikz', 'texorpdf': 'hyperref', 'tikz': 'tikz',
            'lstlisting': 'listings', 'gls': 'glossaries', 'glsentry': 'glossaries', 'footcite': 'biblatex', 'proof': 'amsthm',
            'includegraphics': 'graphicx', 'removed_ext': 'ext', 'twice_ext': 'ext', 'cref': 'cleveref'}
PACK_CHOICES = ['*', '*', '*', '*', '', '', 'amsmath,amsthm', 'xcolor,hyperref,graphicx', 'biblatex,glossaries',
                'tikz,listings,circuitikz', 'amsmath,xcolor,biblatex', '*,.yvm.ext']


def pkgs_of(pack):
    out = set()
    for p in pack.split(','):
        if p == '*':
            out |= ALL_PKGS
        elif p == '.yvm.ext':
            out.add('ext')
        elif p == 'cleveref':
            out.add('cleveref')
        elif p:
            out.add(p)
    return out


HEAD_FORBIDDEN = {'display', 'enumerate', 'section', 'usersec', 'proof', 'itemize', 'tabular', 'tikz', 'theorem', 'itemlab',
                  'verbatim', 'usermacverb', 'figure', 'minipage', 'defmac', 'defbymac', 'removed_ext', 'unkenv', 'lstlisting', 'par', 'glsentry'}
SIDE_EFFECTS = {'footnote', 'caption', 'inline', 'usermac', 'usermac2', 'usermacopt', 'usermacoptonly', 'gls', 'cref',
                'footcite', 'twice_ext', 'mathtext'}
# inside an argument that is duplicated by a macro (twice_ext): nothing with side effects or counters
TWICE_FORBIDDEN = HEAD_FORBIDDEN | SIDE_EFFECTS | {'ref', 'cite', 'citeopt'}


class Gen:
    def __init__(self, rnd, lang='en', kinds=None, max_depth=5, glossary=False, pkgs=None):
        self.rnd = rnd
        self.pkgs = set(ALL_PKGS | {'ext'}) if pkgs is None else set(pkgs)
        self.lang = lang
        self.buf = []
        self.n = 0
        self.wid = 0
        self.hid = 0
        self.main = []
        self.flows = []
        self.flowspan = {}
        self.cur = self.main
        self.kinds = collections.Counter()
        self.depth = 0
        self.max_depth = max_depth
        self.in_detached = 0
        self.in_head = 0
        self.in_twice = 0
        self.in_item = 0
        self.enum_level = 0
        self.words = []             # (word, offset0, path)
        self.path = []
        self.pool = list(kinds or ALL_KINDS)
        self.macros = []            # user macros defined so far: (name, kind)
        self.need_ext = False
        self.glossary = glossary
        self.cref = False
        self.nodes_left = 250       # bounds the size of a document (nesting x branching is exponential)
        self.theorems = []
        self.mid = 0
        self.safe_points = []       # offsets where a fault construct may be inserted (between nodes, brace level 0)
        self.brace = 0
        self.argspans = []          # (open offset, close offset, kind) of braced arguments of declared macros
        self.wsruns = []            # (offset, white space, context) between two adjacent literal words: copied as it is

    # ---- printer
    def w(self, t):
        self.buf.append(t)
        self.n += len(t)

    def pos(self):
        return self.n

    def tail_from(self, p):
        """source text written since offset p"""
        out, n = [], self.n
        for t in reversed(self.buf):
            if n <= p:
                break
            out.append(t)
            n -= len(t)
        s = ''.join(reversed(out))
        return s[len(s) - (self.n - p):]

    def src(self):
        return ''.join(self.buf)

    # ---- leaves
    def word(self, tagextra=''):
        self.wid += 1
        r = self.rnd.random()
        w = 'w' + b33(self.wid)
        if r < .08:
            # (also letters with a separate combining accent and a compatibility character: not in Unicode NFC)
            w += self.rnd.choice(['ä', 'é', 'ж', 'ß', 'e\u0301', 'a\u0308', '\u212b'])
        elif r < .1:
            w += '\U0001d538'
        elif r < .2:
            w += 'x' * self.rnd.randint(1, 6)
        w += 'z'
        st = self.pos()
        self.w(w)
        tag = 'w:' + '/'.join(self.path[-3:]) + tagextra
        for i, c in enumerate(w):
            self.cur.append((c, st + i + 1, st + i + 1, tag))
        self.words.append((w, st, tuple(self.path)))
        return w

    def hidden(self):
        self.hid += 1
        h = 'h' + b33(self.hid) + 'Q'
        self.w(h)
        return h

    def hidden_rich(self):
        """hidden word inside a removed environment, possibly wrapped in a macro whose argument
        would be kept or detached outside the environment"""
        wrap = self.rnd.choice(['', '', '\\footnote{%s}', '\\caption{%s}', '\\textbf{%s}', '\\emph{%s} ',
                                '\\zzunk{%s}', '\\footnote{\\textbf{%s} %s}', '\\footnotetext{%s}',
                                '\\marginpar{%s}'])
        if not wrap:
            return self.hidden()
        self.w(wrap % tuple(self.hid_txt() for i in range(wrap.count('%s'))))

    def gen(self, text, lo, hi, tag):
        for c in text:
            if not c.isspace():
                self.cur.append((c, lo, hi, 'g:' + tag))

    def ws(self, par=False):
        r = self.rnd
        if par:
            self.w(r.choice(['\n\n', '\n \n', '\n\n\n', '\n\t\n']))
        else:
            self.w(r.choice([' ', ' ', ' ', '\n', '  ', '\n  ', ' \n']))

    def optws(self):
        if self.rnd.random() < .3:
            self.w(self.rnd.choice([' ', '\n', ' %' + self.hid_txt() + '\n', '  ', '\n  ']))

    def hid_txt(self):
        self.hid += 1
        return 'h' + b33(self.hid) + 'Q'

    # ---- structure
    def seq(self, n=None, allow_par=True):
        r = self.rnd
        n = n or r.randint(1, 5)
        prev_word_end = None
        pending = None
        for i in range(n):
            if self.brace == 0 and not self.in_detached and not self.in_head and not self.in_twice:
                self.safe_points.append(self.pos())
            p0, nw = self.pos(), len(self.words)
            self.node(allow_par)
            pure = len(self.words) == nw + 1 and self.words[-1][1] == p0 and p0 + len(self.words[-1][0]) == self.pos()
            if pure and pending and not self.in_twice:
                self.wsruns.append(pending)
            pending = None
            if i < n - 1:
                p1 = self.pos()
                self.ws(par=allow_par and r.random() < .15)
                if pure:
                    pending = (p1, self.tail_from(p1), '/'.join(self.path[-2:]))

    def group(self, n=None, allow_par=False, tag=None):
        if tag:
            self.path.append(tag)
        st = self.pos()
        self.w('{')
        self.brace += 1
        if self.rnd.random() < .2:
            self.w(self.rnd.choice([' ', '\n']))
        self.seq(n, allow_par)
        if self.rnd.random() < .2:
            self.w(self.rnd.choice([' ', '\n']))
        self.brace -= 1
        if tag in ('declarg', 'userarg', 'heading', 'footnote', 'caption', 'twice'):
            self.argspans.append((st, self.pos(), tag))
        self.w('}')
        if tag:
            self.path.pop()

    def node(self, allow_par=True):
        r = self.rnd
        self.nodes_left -= 1
        if self.depth >= self.max_depth or self.nodes_left <= 0:
            return self.word()
        k = r.choice(self.pool)
        if self.in_detached and k in ('footnote', 'caption', 'footcite'):
            k = 'word'
        if self.in_head and k in HEAD_FORBIDDEN:
            k = 'word'
        if self.in_twice and k in TWICE_FORBIDDEN:
            k = 'word'
        if k in KIND_PKG and KIND_PKG[k] not in self.pkgs:
            k = 'word'
        if not allow_par and k in ('par', 'display', 'verbatim', 'usermacverb', 'proof', 'theorem', 'minipage', 'lstlisting',
                                   'itemize', 'enumerate', 'itemlab', 'tabular', 'figure', 'unkenv', 'tikz',
                                   'removed_ext', 'skip', 'defmac', 'defbymac', 'comment', 'glsentry'):
            k = 'word'
        if self.in_item and k in ('section', 'usersec'):
            k = 'word'
        self.kinds[k] += 1
        self.depth += 1
        getattr(self, 'k_' + k)()
        self.depth -= 1

    # ---- constructs
    def k_word(self):
        self.word()

    def k_atom(self):
        """a word decorated with special sequences (exact position = first char of sequence)"""
        r = self.rnd
        self.word()
        choices = list(TAB.items())
        for _ in range(r.randint(1, 2)):
            src, out = r.choice(choices)
            st = self.pos()
            self.w(src)
            if not out.isspace():
                self.cur.append((out, st + 1, st + 1, 'w:special'))
            self.word()

    def k_accent(self):
        r = self.rnd
        if self.lang == 'de' and r.random() < .5:
            src, out = r.choice(SHORT_DE)
            self.word()
            st = self.pos()
            self.w(src)
            self.cur.append((out, st + 1, st + 1, 'w:shorthand'))
            self.word()
            return
        src, out = r.choice(ACCENTS)
        self.word()
        st = self.pos()
        if r.random() < .25:
            # braced argument with more than one character: the accent goes to the first one, the others are
            # ordinary copied text with their own offsets
            # (the first letter may also come from a macro or stand outside ASCII)
            acc, base, res = r.choice([("\\'", 'e', 'é'), ('\\v', 'S', 'Š'), ('\\"', 'o', 'ö'), ('\\c', 'C', 'Ç'), ('\\^', 'a', 'â'),
                                       ("\\'", '\\ae ', 'ǽ'), ('\\"', '\\o ', 'ø\u0308'), ("\\'", 'я', 'я\u0301'),
                                       ('\\^', 'ж', 'ж\u0302'), ('\\v', '\\l{}', 'ł\u030c')])
            more = r.choice(['e', 'k', 'xy', 'ab'])
            self.w(acc + '{' + base)
            for ch in res:
                self.cur.append((ch, st + 1, st + 1, 'w:accent'))
            res = None
            for ch in more:
                p = self.pos()
                self.w(ch)
                self.cur.append((ch, p + 1, p + 1, 'w:accent-rest'))
            self.w('}')
            self.word()
            return
        self.w(src)
        for ch in out:
            self.cur.append((ch, st + 1, st + 1, 'w:accent'))
        if src[-1].isalpha() and src[-1] != '}' and len(src) == 3:
            # \'e followed by a word is fine; '\v s' ends in a letter: following letters are separate tokens
            pass
        self.word()

    def k_unk(self):
        self.w('\\zzunk' + self.rnd.choice(['', 'a', 'B']))
        self.w(self.rnd.choice([' ', '\n', '{}', '  ']))

    def k_unkarg(self):
        self.w('\\zzfoo')
        self.optws()
        self.group(tag='unkarg')

    def k_unkarg2(self):
        self.w('\\zzbar')
        self.group(tag='unkarg')
        self.optws()
        self.group(tag='unkarg')

    def k_emph(self):
        self.w(self.rnd.choice(['\\emph', '\\textbf', '\\textit']))     # not declared: unknown, argument stays
        self.optws()
        self.group(tag='unkarg')

    def k_group(self):
        self.group(tag='group')

    def k_label(self):
        self.w('\\label')
        self.optws()
        self.w('{')
        self.hidden()
        self.w('}')

    def k_index(self):
        self.w('\\index{')
        self.hidden()
        self.w(' ')
        self.hidden()
        self.w('}')

    def k_vanish(self):
        r = self.rnd
        cands = [('', c) for c in ['\\pagestyle{%s}', '\\thispagestyle{%s}', '\\bibliographystyle{%s}',
                                   '\\pagenumbering{%s}', '\\vphantom{%s}', '\\input{%s}', '\\include{%s}',
                                   '\\footnotemark', '\\footnotemark[%s]', '\\maketitle']]
        cands += [('xcolor', '\\color{%s}'), ('xcolor', '\\definecolor{%s}{rgb}{0,1,0}'),
                  ('geometry', '\\geometry{%s}'), ('tikz', '\\tikzset{%s}'), ('tikz', '\\usetikzlibrary{%s}'),
                  ('listings', '\\lstset{%s}'), ('pgfplots', '\\pgfplotsset{%s}'),
                  ('mathtools', '\\mathtoolsset{%s}'), ('biblatex', '\\addbibresource{%s}'),
                  ('biblatex', '\\printbibliography'), ('amsmath', '\\notag'), ('circuitikz', '\\ctikzset{%s}'),
                  ('amsthm', '\\theoremstyle{%s}')]
        c = r.choice([c for p, c in cands if not p or p in self.pkgs])
        if '%s' in c:
            c = c % self.hid_txt()
        self.w(c)
        if c[-1].isalpha():
            self.w(r.choice(['{}', ' ', '\n']))

    def k_includegraphics(self):
        self.w('\\includegraphics')
        if self.rnd.random() < .6:
            self.w('[width=%s]' % self.hid_txt())
        self.optws()
        self.w('{' + self.hid_txt() + '}')

    def k_ref(self):
        st = self.pos()
        m = self.rnd.choice(['\\ref', '\\eqref', '\\pageref'] if 'amsmath' in self.pkgs else ['\\ref', '\\pageref'])
        self.w(m)
        self.optws()
        self.w('{')
        self.hidden()
        self.w('}')
        self.gen('(0)' if m == '\\eqref' else '0', st + 1, self.pos(), 'ref')

    def k_cite(self):
        st = self.pos()
        self.w(self.rnd.choice(['\\cite', '\\Cite', '\\parencite'] if 'biblatex' in self.pkgs else ['\\cite']) + '{')
        self.hidden()
        self.w('}')
        self.gen('[0]', st + 1, self.pos(), 'cite')

    def k_citeopt(self):
        st = self.pos()
        self.w('\\cite[')
        mark = len(self.cur)
        self.path.append('citeopt')
        self.word()
        if self.rnd.random() < .3:
            # an opening bracket without partner inside the option (an interval): the option ends at the first ]
            self.w(' ')
            p = self.pos()
            self.w('[')
            self.cur.append(('[', p + 1, p + 1, 'w:citeopt-bracket'))
            self.word()
            p = self.pos()
            self.w(')')
            self.cur.append((')', p + 1, p + 1, 'w:citeopt-bracket'))
        self.path.pop()
        self.w(']{')
        self.hidden()
        self.w('}')
        en = self.pos()
        self.cur[mark:mark] = [(c, st + 1, en, 'g:cite') for c in '[0,']
        self.gen(']', st + 1, en, 'cite')

    def k_footcite(self):
        st = self.pos()
        self.w('\\footcite{')
        self.hidden()
        self.w('}')
        en = self.pos()
        self.flows.append([(c, st + 1, en, 'g:footcite') for c in '[0].'])
        self.flowspan[id(self.flows[-1])] = (st, en)

    def k_section(self):
        st = self.pos()
        self.w(self.rnd.choice(['\\section', '\\subsection*', '\\chapter', '\\section[' + self.hid_txt() + ']',
                                '\\section[' + self.hid_txt() + ' [0,1)]', '\\subsubsection', '\\part', '\\title', '\\section*']))
        self.optws()
        self.in_head += 1
        m0 = len(self.cur)
        self.group(tag='heading')
        self.in_head -= 1
        en = self.pos()
        if len(self.cur) > m0 and self.cur[-1][0] not in '!?':
            self.gen('.', st + 1, en, 'heading-dot')

    def k_usersec(self):
        """a heading produced by a user macro; the heading text ends with tokens of the macro body"""
        st = self.pos()
        self.w('\\ytsec')
        self.optws()
        self.in_head += 1
        self.group(tag='userarg')
        self.in_head -= 1
        en = self.pos()
        self.gen('ybodygLaTeX.', st + 1, en, 'macro-body-heading')

    def detached(self, f, st):
        old = self.cur
        fl = []
        self.flows.append(fl)
        self.cur = fl
        self.in_detached += 1
        f()
        self.cur = old
        self.in_detached -= 1
        self.flowspan[id(fl)] = (st, self.pos())     # source span of the call that produces the flow

    def k_footnote(self):
        st = self.pos()
        self.w(self.rnd.choice(['\\footnote', '\\footnote[3]', '\\footnotetext', '\\footnote[' + self.hid_txt() + ']']))
        self.optws()
        self.detached(lambda: self.group(tag='footnote'), st)

    def k_caption(self):
        st = self.pos()
        self.w(self.rnd.choice(['\\caption', '\\caption[' + self.hid_txt() + ']']))
        self.detached(lambda: self.group(tag='caption'), st)

    def k_textcolor(self):
        self.w(self.rnd.choice(['\\textcolor{' + self.hid_txt() + '}', '\\colorbox{' + self.hid_txt() + '}',
                                '\\textcolor[rgb]{' + self.hid_txt() + '}',
                                '\\fcolorbox{' + self.hid_txt() + '}{' + self.hid_txt() + '}']))
        self.optws()
        self.group(tag='declarg')

    def k_href(self):
        self.w('\\href{' + self.hid_txt() + '}')
        self.group(tag='declarg')

    def k_url(self):
        """\\url{..}: the address is copied; written with a comment and a continuation line inside the braces,
        or through a user macro whose body holds the first part of the address"""
        r = self.rnd
        if r.random() < .4:
            st = self.pos()
            self.w('\\ysite{')
            mark = len(self.cur)
            self.path.append('userarg')
            self.word()
            self.path.pop()
            self.w('}')
            en = self.pos()
            self.cur[mark:mark] = [(c, st + 1, en, 'g:macro-body') for c in 'ysitepre/']
            return
        self.w('\\url{')
        self.path.append('declarg')
        self.word()
        for k in range(r.randint(1, 2)):
            if r.random() < .5:
                self.w('%' + self.hid_txt() + '\n' + r.choice(['', '  ', '\t']))
            p = self.pos()
            self.w('/')
            self.cur.append(('/', p + 1, p + 1, 'w:url'))
            if r.random() < .4:
                self.w('%' + self.hid_txt() + '\n' + r.choice(['', '   ']))
            self.word()
        self.path.pop()
        self.w('}')

    def k_texorpdf(self):
        self.w('\\texorpdfstring')
        self.group(tag='declarg')
        self.w('{' + self.hid_txt() + '}')

    def k_framebox(self):
        self.w('\\framebox')
        if self.rnd.random() < .5:
            self.w('[' + self.hid_txt() + ']')
            if self.rnd.random() < .5:
                self.w('[' + self.hid_txt() + ']')
        self.group(tag='declarg')

    def k_comment(self):
        self.w('%')
        self.hidden()
        self.w(self.rnd.choice([' \\zzhid{x} $\n', '\n', ' { \\footnote{x\n', ' %%% LT-SKIP-END\n']))

    def k_skip(self):
        r = self.rnd
        if r.random() < .25:
            # marker comment directly below another comment line
            self.w('%' + self.hid_txt() + '\n' + r.choice(['', '  ']))
        self.w('%%% LT-SKIP-BEGIN' + r.choice(['', ' x']) + '\n')
        if r.random() < .85:
            self.hidden()
            self.w(r.choice([' \\footnote{hxQ} $ {\n', '\n\n\\section{hQ}\n', '\n', ' \\begin{itemize}\n']))
            if r.random() < .25:
                self.w('%' + self.hid_txt() + ' {\n' + r.choice(['', '\t']))
        self.w('%%% LT-SKIP-END\n')

    def k_ltskip(self):
        self.w('\\LTskip{')
        self.hidden()
        self.w('}')

    def k_ltadd(self):
        self.w('\\LTadd')
        self.group(tag='declarg')

    def k_ltalter(self):
        self.w('\\LTalter{')
        self.hidden()
        self.w('}')
        self.group(tag='declarg')

    def items(self, enum):
        r = self.rnd
        self.in_item += 1
        for i in range(r.randint(1, 3)):
            self.ws()
            st = self.pos()
            self.w('\\item')
            if enum:
                lab = (str(i + 1) + '.') if self.enum_level == 1 else (chr(ord('a') + i) + '.')
                self.gen(lab, st + 1, self.pos(), 'enum-label')
            self.w(r.choice([' ', '\n', '  ']))
            self.path.append('item')
            self.seq(r.randint(1, 2), False)
            self.path.pop()
        self.in_item -= 1

    def k_itemize(self):
        self.w('\\begin{itemize}')
        self.items(False)
        self.ws()
        self.w('\\end{itemize}')

    def k_enumerate(self):
        self.w('\\begin{enumerate}')
        self.enum_level += 1
        self.items(True)
        self.enum_level -= 1
        self.ws()
        self.w('\\end{enumerate}')

    def k_itemlab(self):
        """\\item[X]: the label text stays (copy); punctuation copying needs text before (not modelled: the
        preceding text ends in a word character)"""
        self.word()
        punct = self.rnd.choice(['', '', '.', ':', ',', ';', '!', '?'])
        if punct:
            st0 = self.pos()
            self.w(punct)
            self.cur.append((punct, st0 + 1, st0 + 1, 'w:punct'))
        self.ws()
        self.w('\\begin{itemize}')
        self.ws()
        st = self.pos()
        self.w('\\item[')
        self.path.append('itemlabel')
        self.word()
        self.path.pop()
        self.w(']')
        if punct:
            self.gen(punct, st + 1, self.pos(), 'item-label-punct')
        self.w(' ')
        self.path.append('item')
        self.word()
        self.path.pop()
        self.ws()
        self.w('\\end{itemize}')

    def k_verb(self):
        d = self.rnd.choice('|!+/=')
        self.w('\\verb' + d)
        self.path.append('verb')
        if self.rnd.random() < .3:
            self.w(self.rnd.choice([' ', '  ']))      # blanks next to the delimiter are part of the text
        self.word()
        if self.rnd.random() < .3:
            self.w(' ')
            self.word()
        self.path.pop()
        self.w(d)

    def k_verbatim(self):
        self.w(self.rnd.choice(['\\begin{verbatim}'] * 4 + ['\\begin {verbatim}', '\\begin\n{verbatim}', '\\begin\n  {verbatim}']))
        self.w(self.rnd.choice(['\n', ' ', '', '  \n', '\t\n', ' \n  ', '   \n\n', '\n\n', '\n\n\n', '\n \n']))
        self.path.append('verbatim')
        self.word()
        self.w(self.rnd.choice(['\n', ' ', '\n  ']))
        self.word()
        self.path.pop()
        self.w(self.rnd.choice(['\n', '']))
        self.w('\\end{verbatim}')

    def k_lstlisting(self):
        self.w('\\begin{lstlisting}')
        if self.rnd.random() < .4:
            self.w('[language=' + self.hid_txt() + ']')
        self.w('\n')
        self.hidden_rich()
        self.w(' { } \\foo\n')
        self.w('\\end{lstlisting}')

    def k_inline(self):
        st = self.pos()
        a, b = self.rnd.choice([('$', '$'), ('\\(', '\\)')])
        self.w(a + self.rnd.choice(['x_{' + self.hid_txt() + '}+\\alpha', 'a^2', '\\frac{1}{' + self.hid_txt() + '}',
                                    '\\mathrm{' + self.hid_txt() + '}', 'f(x)=0',
                                    # macros whose names merely start like a text macro: part of the formula
                                    '\\textstyle ' + self.hid_txt(), 'a\\textcolor{red}{' + self.hid_txt() + '}',
                                    '\\textwidth ' + self.hid_txt() + '+\\mboxed{' + self.hid_txt() + '}',
                                    # environments inside the formula
                                    'M=\\begin{pmatrix}1&' + self.hid_txt() + '\\\\3&4\\end{pmatrix}',
                                    '\\begin{cases}' + self.hid_txt() + '&x>0\\end{cases}',
                                    'a\\begin{zzmenv}' + self.hid_txt() + '\\end{zzmenv}+1']) + b)
        self.cur.append(('@I', st + 1, self.pos(), 'g:inline'))
        if self.rnd.random() < .25:
            # a formula that ends with a punctuation mark, possibly behind a user macro with a long body: the mark
            # is kept behind the placeholder and is generated by the formula
            st = self.pos()
            self.w(' ')
            st2 = self.pos()
            p = self.rnd.choice('.,;:')
            body = self.rnd.choice(['b_2', '\\ykmth', 'z=\\ykmth', 'c']) if getattr(self, 'preamble', False) else 'b_2'
            a, b = self.rnd.choice([('$', '$'), ('\\(', '\\)')])
            self.w(a + body + p + b)
            self.cur.append(('@I', st2 + 1, self.pos(), 'g:inline'))
            self.cur.append((p, st2 + 1, self.pos(), 'g:inline-punctuation'))

    def k_display(self):
        st = self.pos()
        envs = [('\\[', '\\]'), ('$$', '$$'), ('\\begin{equation}', '\\end{equation}'),
                ('\\begin{eqnarray*}', '\\end{eqnarray*}'), ('\\begin{displaymath}', '\\end{displaymath}')]
        if 'amsmath' in self.pkgs:
            envs += [('\\begin{align*}', '\\end{align*}'), ('\\begin{equation*}', '\\end{equation*}'),
                     ('\\begin{gather}', '\\end{gather}'), ('\\begin{alignat}{2}', '\\end{alignat}')]
        a, b = self.rnd.choice(envs)
        self.w(a + self.rnd.choice([' x=' + self.hid_txt(), '\n a_{' + self.hid_txt() + '}\n', ' \\sum_i i ',
                                    ' \\textstyle ' + self.hid_txt() + ' ', ' \\textcolor{red}{' + self.hid_txt() + '}=0 ']))
        if self.rnd.random() < .3:
            self.w('\\label{' + self.hid_txt() + '}')
        self.w(b)
        self.cur.append(('@D', st + 1, self.pos(), 'g:display'))

    def k_mathtext(self):
        """\\text / \\mbox inside inline maths: argument copied with exact positions"""
        st = self.pos()
        self.w('$x ')
        m = self.rnd.choice(['\\text', '\\mbox'] if 'amsmath' in self.pkgs else ['\\mbox'])
        self.w(m + '{')
        mark = len(self.cur)
        self.path.append('mathtext')
        self.word()
        self.path.pop()
        self.w('} y$')
        en = self.pos()
        self.cur.insert(mark, ('@I', st + 1, en, 'g:inline'))
        self.cur.append(('@I', st + 1, en, 'g:inline'))

    def k_tabular(self):
        self.w('\\begin{tabular}{' + self.hid_txt() + '}')
        self.ws()
        self.path.append('tabular')
        self.word()
        self.w(' & ')
        self.word()
        self.w(self.rnd.choice([' \\\\ ', ' \\\\[2ex] ', '\\\\\n', ' \\\\ [1pt] ']))
        self.word()
        self.path.pop()
        self.ws()
        self.w('\\end{tabular}')

    def k_figure(self):
        env = self.rnd.choice(['figure', 'table'])
        self.w('\\begin{' + env + '}')
        if self.rnd.random() < .5:
            self.w('[' + self.hid_txt() + ']')
        self.ws()
        self.path.append(env)
        self.seq(self.rnd.randint(1, 2), False)
        self.path.pop()
        self.ws()
        self.w('\\end{' + env + '}')

    def k_minipage(self):
        self.w('\\begin{minipage}{' + self.hid_txt() + '}')
        self.ws()
        self.path.append('minipage')
        self.seq(self.rnd.randint(1, 2), False)
        self.path.pop()
        self.ws()
        self.w('\\end{minipage}')

    def k_unkenv(self):
        env = self.rnd.choice(['zzenv', 'center', 'quote', 'zzenvb'])
        self.w('\\begin{' + env + '}')
        self.ws()
        self.path.append('unkenv')
        self.seq(self.rnd.randint(1, 3), True)
        self.path.pop()
        self.ws()
        self.w('\\end{' + env + '}')

    def k_proof(self):
        st = self.pos()
        name = {'de': 'Beweis', 'ru': 'Доказательство'}.get(self.lang, 'Proof')
        if self.rnd.random() < .3:
            self.w('\\begin{proof}[')
            self.path.append('prooftitle')
            self.word()
            self.path.pop()
            self.w(']')
            self.gen('.', st + 1, self.pos(), 'proof')
        else:
            self.w('\\begin{proof}')
            self.gen(name + '.', st + 1, self.pos(), 'proof')
        self.ws()
        self.path.append('proof')
        self.seq(2, True)
        self.path.pop()
        self.ws()
        self.w('\\end{proof}')

    def k_theorem(self):
        if not self.theorems:
            return self.word()
        env, title = self.rnd.choice(self.theorems)
        st = self.pos()
        self.w('\\begin{' + env + '}')
        if self.rnd.random() < .4:
            self.w('[')
            mark = len(self.cur)
            self.path.append('theoremtitle')
            self.word()
            self.path.pop()
            self.w(']')
            en = self.pos()
            self.cur[mark:mark] = [(c, st + 1, en, 'g:theorem') for c in title + '(']
            self.gen(').', st + 1, en, 'theorem')
        else:
            self.gen(title + '.', st + 1, self.pos(), 'theorem')
        self.ws()
        self.path.append('theorem')
        self.seq(2, False)
        self.path.pop()
        self.ws()
        self.w('\\end{' + env + '}')

    def k_tikz(self):
        env = self.rnd.choice(['tikzpicture', 'circuitikz'] if 'circuitikz' in self.pkgs else ['tikzpicture'])
        self.w('\\begin{' + env + '}')
        if self.rnd.random() < .3:
            self.w('[' + self.hid_txt() + ']')
        self.hidden()
        self.w(' \\zzdraw{')
        self.hidden()
        self.w('}' + self.rnd.choice(['\n\n', ' ', ' $x$ ']))
        self.hidden_rich()
        self.w('\\end{' + env + '}')

    def k_tikzin(self):
        """a small picture inside running text or inside an argument (footnote, caption, ...): removed without trace,
        the text around it stays"""
        self.w('\\begin{tikzpicture}')
        self.hidden_rich()
        self.w(self.rnd.choice([' ', '']) + '\\end{tikzpicture}')

    def k_usermacml(self):
        """user macro whose body spans several lines: a first line without text (with trailing blanks), an indented
        second line; called at the start of a source line or inside a line"""
        if self.brace == 0 and self.rnd.random() < .6:
            self.w('\n')
        st = self.pos()
        self.w('\\ykm')
        en = self.pos()
        self.gen('ybodyh', st + 1, en, 'mlbody:6')
        self.w('{}')

    def k_usermacverb(self):
        """user macro whose body is a verbatim environment: the text and the paragraph breaks around it are
        generated by the call"""
        st = self.pos()
        self.w('\\ykv')
        en = self.pos()
        self.gen('ybodyv', st + 1, en, 'macro-body')
        self.gen('ybodyw', st + 1, en, 'wsafter:2')
        self.w(self.rnd.choice(['{}', ' ', '\n']))

    def k_removed_ext(self):
        self.need_ext = True
        st = self.pos()
        self.w('\\begin{yvmremoved}')
        self.hidden_rich()
        self.w(' \\zzdraw{' + self.hid_txt() + '} ')
        self.w('\\end{yvmremoved}')
        self.gen('yvmrepl', st + 1, self.pos(), 'removed-env-repl')

    def k_twice_ext(self):
        """declared macro that uses its argument twice: words appear twice, same source position"""
        self.need_ext = True
        st = self.pos()
        self.w('\\yvmtwice')
        self.optws()
        mark = len(self.cur)
        self.in_twice += 1
        self.group(tag='twice')
        self.in_twice -= 1
        en = self.pos()
        arg = self.cur[mark:]
        self.gen('yvmmid', st + 1, en, 'macro-body')
        self.cur += arg

    def k_usermac(self):
        """\\newcommand{\\ymaca}[1]{ybodya #1 ybodyb} (defined in the preamble)"""
        st = self.pos()
        self.w('\\ymaca')
        self.optws()
        mark = len(self.cur)
        self.group(tag='userarg')
        en = self.pos()
        self.cur[mark:mark] = [(c, st + 1, en, 'g:macro-body') for c in 'ybodya']
        self.gen('ybodyb', st + 1, en, 'macro-body')

    def k_usermac2(self):
        """\\ymacb{X}{Y} -> Y ybodyc X   (two arguments, swapped; detached flows are extracted in
        expansion order, i.e. those of Y first)"""
        st = self.pos()
        self.w('\\ymacb')
        m1 = len(self.cur)
        f1 = len(self.flows)
        self.group(tag='userarg')
        a1 = self.cur[m1:]
        del self.cur[m1:]
        fl1 = self.flows[f1:]
        del self.flows[f1:]
        self.optws()
        self.group(tag='userarg')
        en = self.pos()
        self.gen('ybodyc', st + 1, en, 'macro-body')
        self.cur += a1
        self.flows += fl1

    def k_usermacopt(self):
        """\\ymacc[O]{X} -> ybodyd O X ; default for O is 'ydflt'"""
        st = self.pos()
        self.w('\\ymacc')
        mark = len(self.cur)
        has = self.rnd.random() < .5
        if has:
            self.w('[')
            if self.rnd.random() < .8:
                self.path.append('useropt')
                self.word()
                self.path.pop()
            else:
                # explicitly empty option: #1 is empty, not the default
                self.w(self.rnd.choice(['', '', ' ', '%' + self.hid_txt() + '\n']))
            self.w(']')
        m2 = len(self.cur)
        self.group(tag='userarg')
        en = self.pos()
        if not has:
            self.cur[m2:m2] = [(c, st + 1, en, 'g:macro-default') for c in 'ydflt']
        self.cur[mark:mark] = [(c, st + 1, en, 'g:macro-body') for c in 'ybodyd']

    def k_usermacoptonly(self):
        """\\ymacd[O] -> ybodye O ; only an optional argument, default 'ydfltb'"""
        st = self.pos()
        self.w('\\ymacd')
        mark = len(self.cur)
        if self.rnd.random() < .4:
            self.w('[')
            if self.rnd.random() < .8:
                self.path.append('useropt')
                self.word()
                self.path.pop()
            else:
                self.w(self.rnd.choice(['', '', ' ']))
            self.w(']')
            en = self.pos()
        else:
            en = self.pos()
            self.cur += [(c, st + 1, en, 'g:macro-default-trailing') for c in 'ydfltb']
            self.w(self.rnd.choice(['{}', ' ', '\n']))
        self.cur[mark:mark] = [(c, st + 1, en, 'g:macro-body') for c in 'ybodye']

    def k_defmac(self):
        """definition in mid-document, then used once"""
        self.mid += 1
        name = '\\ymid' + 'abcdefghijklmnop'[self.mid % 16] + 'abcdefghijklmnop'[(self.mid // 16) % 16]
        body = 'ymid' + b33(self.mid) + 'z'
        kind = self.rnd.choice(['new', 'def', 'renew'])
        if kind == 'def':
            self.w('\\def' + name + '#1{' + body + ' #1}')
        else:
            self.w('\\%scommand{%s}[1]{%s #1}' % ('new' if kind == 'new' else 'renew', name, body))
        self.ws()
        st = self.pos()
        self.w(name)
        mark = len(self.cur)
        self.group(tag='userarg')
        en = self.pos()
        self.cur[mark:mark] = [(c, st + 1, en, 'g:macro-body') for c in body]

    def k_defbymac(self):
        """a macro defined by another macro (\\ydefm{\\name}{X} = \\newcommand{\\name}{X ybodyf}), used several times:
        every use generates the text anew, inside its own span"""
        self.mid += 1
        name = '\\ymid' + 'abcdefghijklmnop'[self.mid % 16] + 'abcdefghijklmnop'[(self.mid // 16) % 16]
        arg = 'ydm' + b33(self.mid) + 'z'
        self.w('\\ydefm{%s}{%s}' % (name, arg))
        for i in range(self.rnd.randint(2, 3)):
            self.ws()
            self.word()
            self.ws()
            st = self.pos()
            self.w(name)
            en = self.pos()
            self.cur += [(c, st + 1, en, 'g:macro-by-macro') for c in arg + 'ybodyf']
            self.w('{}')

    def k_latexname(self):
        st = self.pos()
        m, out = self.rnd.choice([('\\LaTeX', 'LaTeX'), ('\\TeX', 'TeX'), ('\\S', '§'), ('\\ss', 'ß'),
                                  ('\\AA', 'Å'), ('\\oe', 'œ'), ('\\L', 'Ł')])
        self.w(m)
        self.w(self.rnd.choice(['{}', ' ', '\\ ']))
        self.gen(out, st + 1, st + len(m), 'builtin-name')

    def k_textbackslash(self):
        st = self.pos()
        m, out = self.rnd.choice([('\\textbackslash', '\\'), ('\\textasciitilde', '~'), ('\\textasciicircum', '^')])
        self.w(m + '{}')
        self.gen(out, st + 1, st + len(m), 'builtin-name')

    def k_hspace(self):
        self.w(self.rnd.choice(['\\hspace{1cm}', '\\hspace*{2em}', '\\vspace{1ex}', '\\hspace{0pt}', '\\hfill ',
                                '\\hspace{' + self.hid_txt() + '}']))

    def k_phantom(self):
        self.w(self.rnd.choice(['\\phantom', '\\hphantom']) + '{' + self.hid_txt() + '}')

    def k_quad(self):
        self.w(self.rnd.choice(['\\quad ', '\\qquad ', '\\quad{}', '\\;', '\\:', '\\ ']))

    def k_newline(self):
        self.w(self.rnd.choice(['\\newline ', '\\newline{}', '\\\\', '\\\\[1ex]', '\\\\ ']))

    def k_par(self):
        self.w('\\par' + self.rnd.choice([' ', '\n', '{}']))

    def k_cref(self):
        """cleveref with a sed file (poorman): literal and macro parts in the replacement; repeated uses"""
        if not self.cref:
            return self.word()
        variants = [('\\cref{ylab}', 'ycrefig (7)'), ('\\Cref{ylab}', 'Ycrefig (7)'), ('\\cref{yl2}', 'ycreq (1) to (2)'),
                    ('\\crefrange{ylab}{yl2}', 'ycrefigs (7) to (9)'), ('\\cref*{ylab}', 'ycrstar LaTeX (7)')]
        for rep in range(2 if self.rnd.random() < .4 else 1):
            if rep:
                self.w(' ')
                self.word()
                self.w(' ')
            m, out = self.rnd.choice(variants) if rep == 0 or self.rnd.random() < .5 else (m, out)
            st = self.pos()
            self.w(m)
            self.gen(out, st + 1, self.pos(), 'cleveref')

    def k_glsentry(self):
        """\\newglossaryentry in the document: the description is printed at the place of the definition
        (first letter in upper case, full stop added); the value may be braced as a whole or hold inner groups"""
        r = self.rnd
        self.mid += 1
        st = self.pos()
        self.w('\\newglossaryentry{hgl%sQ}{name=%s, description=' % (b33(self.mid), self.hid_txt()))
        whole = r.random() < .4
        if whole:
            self.w('{')
        mark = len(self.cur)
        self.w('ygdescr ')
        self.path.append('glsdescr')
        self.word()
        for k in range(r.randint(0, 2)):
            self.w(' ')
            if r.random() < .5:
                self.w(r.choice(['\\textbf{', '\\emph{', '\\zzunk{', '{']))
                self.word()
                if r.random() < .5:
                    self.w(' ')
                    self.word()
                self.w('}')
            else:
                self.word()
        self.path.pop()
        if whole:
            self.w('}')
        if r.random() < .3:
            self.w(', plural=' + self.hid_txt())
        self.w('}')
        en = self.pos()
        self.cur[mark:mark] = [(c, st + 1, en, 'g:glsentry-description') for c in 'Ygdescr']
        self.gen('.', st + 1, en, 'glsentry-description')

    def k_gls(self):
        if not self.glossary:
            return self.word()
        variants = [('\\gls', 'yglstext yglstwo'), ('\\glspl', 'yglsplural yglsmany'), ('\\Gls', 'Yglstext yglstwo'),
                    ('\\GLS', 'YGLSTEXT YGLSTWO'), ('\\glsdesc', 'yglsdescr'), ('\\glstext', 'yglstext yglstwo'),
                    ('\\Glspl', 'Yglsplural yglsmany'), ('\\GLSpl', 'YGLSPLURAL YGLSMANY'),
                    ('\\Glsdesc', 'Yglsdescr'), ('\\Glstext', 'Yglstext yglstwo'), ('\\GLStext', 'YGLSTEXT YGLSTWO')]
        m, out = self.rnd.choice(variants)
        for rep in range(2 if self.rnd.random() < .35 else 1):
            if rep:
                self.w(' ')
                self.word()
                self.w(' ')
                if self.rnd.random() < .5:
                    m, out = self.rnd.choice(variants)
            st = self.pos()
            self.w(m + '{ylab}')
            self.gen(out, st + 1, self.pos(), 'glossary')

PREAMBLE = ('\\newcommand{\\ymaca}[1]{ybodya #1 ybodyb}\n'
            '\\newcommand{\\ymacb}[2]{#2 ybodyc #1}\n'
            '\\newcommand{\\ymacc}[2][ydflt]{ybodyd #1 #2}\n'
            '\\newcommand{\\ymacd}[1][ydfltb]{ybodye #1}\n'
            '\\newcommand{\\ydefm}[2]{\\newcommand{#1}{#2 ybodyf}}\n'
            '\\newcommand{\\ysite}[1]{\\url{ysitepre/#1}}\n'
            '\\newcommand{\\ytsec}[1]{\\section{#1 ybodyg \\LaTeX}}\n'
            '\\newcommand{\\ykm}{\\index{hkmQ}     \n      ybodyh}\n'
            '\\newcommand{\\ykmth}{y_1, y_2, \\ldots, y_{hkmQ}}\n'
            '\\newcommand{\\ykv}{\\begin{verbatim}\nybodyv  ybodyw\\end{verbatim}}\n')
CREFSED = ('s/\\\\cref{ylab}/ycrefig~(7)/g\n'
           's/\\\\Cref{ylab}/Ycrefig~(7)/g\n'
           's/\\\\cref{yl2}/ycreq (1) to (2)/g\n'
           's/\\\\crefrange{ylab}{yl2}/ycrefigs~(7) to~(9)/g\n'
           's/\\\\cref\\*{ylab}/ycrstar \\\\LaTeX\\\\ (7)/g\n')
GLSDEFS = ('\\gls@defglossaryentry{ylab}%\n{%\nname={yglsname},%\ntext={yglstext\n                    yglstwo},%\nplural={yglsplural   yglsmany},%\n'
           'description={yglsdescr},%\nfirst={yglsfirst}%\n}%\n')


def random_document(rnd, size=None, lang='en', kinds=None, max_depth=5, glossary_file=None, theorems=True,
                    end_pressure=None, pack='*,.yvm.ext', preamble_extra='', preamble=True, cref_file=None,
                    max_nodes=250):
    pk = pkgs_of(pack)
    if 'glossaries' not in pk:
        glossary_file = None
    g = Gen(rnd, lang=lang, kinds=kinds, max_depth=max_depth, glossary=bool(glossary_file), pkgs=pk)
    g.nodes_left = max_nodes
    if rnd.random() < .08:
        # the file starts with a skipped region (offset 0)
        g.w('%%% LT-SKIP-BEGIN\n' + g.hid_txt() + ' \\section{' + g.hid_txt() + '}\n%%% LT-SKIP-END\n')
    g.w(preamble_extra)
    g.preamble = preamble
    if preamble:
        g.w(PREAMBLE)
    else:
        g.pool = [k for k in g.pool if not k.startswith('usermac') and k not in ('usersec', 'defbymac', 'url')]
    if theorems:
        # (yp: the generated title is longer than the \begin{yp} that produces it)
        # (yq: the title is written with macros: accents, a font macro with braces)
        g.theorems = [('ythm', 'Ytheorem'), ('ylem', 'Ylemma'), ('yp', 'Ysupplementaryproposition'),
                      ('yq', 'Yth\u00e9or\u00e8meysatz')]
        g.w('\\newtheorem{ythm}{Ytheorem}\n\\newtheorem{ylem}[ythm]{Ylemma}\n\\newtheorem{yp}{Ysupplementaryproposition}\n'
            "\\newtheorem{yq}{Yth\\'eor\\`eme\\textbf{ysatz}}\n")
    if glossary_file:
        g.w('\\LTinput{' + glossary_file + '}\n')
        if rnd.random() < .3:
            # loading the package again with other options must not forget the database
            g.w('\\usepackage[acronym]{glossaries}\n')
    if cref_file and 'xcolor' in pk and 'hyperref' in pk and 'amsmath' in pk and rnd.random() < .5:
        # (only together with the full package set; cleveref itself is loaded by \\usepackage[poorman])
        g.pkgs.add('cleveref')
        g.w('\\usepackage[poorman]{cleveref}\\YYCleverefInput{' + cref_file + '}\n')
        g.cref = True
    g.body_start = g.pos()
    g.seq(size or rnd.randint(2, 8))
    if end_pressure is None:
        end_pressure = rnd.choice([0, 0, 1, 2, 3])
    g.w([' ', '\n', '', '\n\n'][end_pressure] if end_pressure < 4 else '')
    d = Doc()
    d.src = g.src()
    d.main = g.main
    d.flows = g.flows
    d.flowspans = [g.flowspan.get(id(fl)) for fl in g.flows]
    d.kinds = g.kinds
    d.words = g.words
    d.lang = lang
    d.body_start = g.body_start
    d.pack = pack
    d.gen = g
    d.safe_points = g.safe_points
    d.argspans = g.argspans
    d.wsruns = g.wsruns
    return d


TOK = re.compile(r'\\[a-zA-Z@]+\*?|\\.|%[^\n]*\n?|\s+|[a-zA-Z0-9]+|.', re.S)


def rough_tokens(src):
    """harness-side tokenizer used for single-token deletions"""
    return TOK.findall(src)
