"""Probes attached from the harness (no source edits in /repo):
   - StepClock: logical step counter (sys.monitoring PY_START in YaLafi code) with budget
   - CpuGuard: ITIMER_VIRTUAL backstop for loops that make no Python calls
   - wrap(): post-condition wrappers around real functions, with evaluation counters
   - capture of the last Parser instance (for classifying fatal exits)
"""
import os
import signal
import sys

from . import env

REPO_PREFIX = os.path.realpath(env.REPO) + os.sep


class StepBudgetExceeded(BaseException):
    pass


class CpuBudgetExceeded(BaseException):
    pass


class StepClock:
    """counts function entries in YaLafi code; raises StepBudgetExceeded beyond limit"""
    TOOL = 4

    def __init__(self):
        self.count = 0
        self.limit = None
        self.exceeded = False
        self.active = False

    def start(self):
        mon = sys.monitoring
        try:
            mon.use_tool_id(self.TOOL, 'yvm-stepclock')
        except ValueError:
            pass
        mon.register_callback(self.TOOL, mon.events.PY_START, self._cb)
        mon.set_events(self.TOOL, mon.events.PY_START)
        self.active = True

    def stop(self):
        mon = sys.monitoring
        mon.set_events(self.TOOL, 0)
        mon.register_callback(self.TOOL, mon.events.PY_START, None)
        try:
            mon.free_tool_id(self.TOOL)
        except ValueError:
            pass
        self.active = False

    def _cb(self, code, offset):
        if not code.co_filename.startswith(REPO_PREFIX):
            return sys.monitoring.DISABLE
        self.count += 1
        if self.limit is not None and self.count > self.limit:
            self.exceeded = True
            self.limit = self.count + 1000     # raise again later if swallowed by a bare except
            raise StepBudgetExceeded(self.count)

    def begin(self, limit):
        self.count = 0
        self.limit = limit
        self.exceeded = False


class CpuGuard:
    def __init__(self, seconds):
        self.seconds = seconds
        self.fired = False

    def _h(self, *a):
        self.fired = True
        raise CpuBudgetExceeded()

    def __enter__(self):
        self.fired = False
        self.old = signal.signal(signal.SIGVTALRM, self._h)
        self.prev = signal.setitimer(signal.ITIMER_VIRTUAL, self.seconds)
        return self

    def __exit__(self, *a):
        left = signal.setitimer(signal.ITIMER_VIRTUAL, 0)
        signal.signal(signal.SIGVTALRM, self.old)
        if self.prev and self.prev[0] > 0:
            # nested guards: re-arm the enclosing one with what it had left
            used = self.seconds - left[0]
            signal.setitimer(signal.ITIMER_VIRTUAL, max(0.01, self.prev[0] - used))
        return False


class Wrapped:
    """wrap(obj, 'name', post=f): f(result, args, kwargs) may record / raise; counts evaluations"""

    def __init__(self):
        self.evals = {}
        self.undo = []

    def wrap(self, owner, name, post=None, pre=None):
        orig = getattr(owner, name)
        key = '%s.%s' % (getattr(owner, '__name__', owner.__class__.__name__), name)
        self.evals.setdefault(key, 0)
        me = self

        def wrapper(*a, **kw):
            if pre:
                pre(a, kw)
            r = orig(*a, **kw)
            me.evals[key] += 1
            if post:
                post(r, a, kw)
            return r
        wrapper.__wrapped__ = orig
        setattr(owner, name, wrapper)
        self.undo.append((owner, name, orig))
        return key

    def restore(self):
        for owner, name, orig in reversed(self.undo):
            setattr(owner, name, orig)
        self.undo = []


class ParserCapture:
    """remember the Parser objects created during one tex2txt call"""

    def __init__(self):
        from yalafi import parser as yparser
        self.mod = yparser
        self.last = None
        self.orig = yparser.Parser.__init__
        cap = self

        def init(this, *a, **kw):
            cap.last = this
            return cap.orig(this, *a, **kw)
        yparser.Parser.__init__ = init

    def restore(self):
        self.mod.Parser.__init__ = self.orig
