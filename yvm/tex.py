"""Calling the real filter in-process with captured stderr."""
import contextlib
import io
import re

from . import env

env.import_yalafi()
from yalafi import tex2txt as _t2t    # noqa: E402

MARK = 'LATEXXXERROR'


def run(latex, ml=False, modify_parms=None, **kw):
    """-> (result, stderr).  result = (plain, map) or {lang: [[plain, map], ...]}"""
    kw.setdefault('pack', '*')
    err = io.StringIO()
    with contextlib.redirect_stderr(err):
        r = _t2t.tex2txt(latex, _t2t.Options(**kw), multi_language=ml,
                         modify_parms=modify_parms)
    return r, err.getvalue()


DIAG = re.compile(r'\*\*\* LaTeX error: line (\d+), column (\d+):\n\*\*\* (.*)')


def diagnostics(stderr):
    return [(int(a), int(b), c) for a, b, c in DIAG.findall(stderr)]


def short(s, n=400):
    s = s if isinstance(s, str) else repr(s)
    return s if len(s) <= n else s[:n] + '...[%d chars]' % len(s)
