"""Run a sequence of tex2txt calls in ONE fresh interpreter and print the results as JSON
(used by C17: history independence).  Spec file: {items: [{src, opts, ml}], order: [i, ...]}.
A state-diff monitor fingerprints the mutable module-level state of yalafi.* before and
after every call and names the objects a call changed (nominates 'writers')."""
import contextlib
import hashlib
import io
import json
import sys


def fingerprint():
    fp = {}
    for name, mod in list(sys.modules.items()):
        if not (name == 'yalafi' or name.startswith('yalafi.')) or mod is None:
            continue
        for k, v in list(vars(mod).items()):
            if k.startswith('__'):
                continue
            objs = []
            if isinstance(v, (dict, list, set)):
                objs.append((k, v))
            elif isinstance(v, type) and getattr(v, '__module__', None) == name:
                for a, av in list(vars(v).items()):
                    if isinstance(av, (dict, list, set)):
                        objs.append((k + '.' + a, av))
            elif callable(v) and getattr(v, '__module__', None) == name:
                for i, d in enumerate(getattr(v, '__defaults__', None) or ()):
                    if isinstance(d, (dict, list, set)):
                        objs.append(('%s.__defaults__[%d]' % (k, i), d))
                cache = getattr(v, 'cache_info', None)
                if cache:
                    try:
                        objs.append((k + '.cache_info', [cache().currsize]))
                    except Exception:
                        pass
            for on, ov in objs:
                try:
                    h = hashlib.sha1(repr(ov)[:200000].encode('utf-8', 'replace')).hexdigest()[:12]
                except Exception:
                    h = 'unrepr'
                fp[name + ':' + on] = h
    return fp


def main():
    spec = json.load(open(sys.argv[1]))
    from yalafi import tex2txt
    out = []
    shared = {}
    for i in spec['order']:
        it = spec['items'][i]
        before = fingerprint()
        err = io.StringIO()
        res = None
        exc = None
        try:
            with contextlib.redirect_stderr(err):
                opts = dict(it['opts'])
                opts.setdefault('pack', '*')
                # files (re-)written just before this call
                for fn, content in (opts.pop('_files', None) or {}).items():
                    with open(fn, 'w', encoding='utf-8') as f:
                        f.write(content)
                # replacement / definition files are read once per process and the same object is handed to
                # every call, as yalafi.shell does with --replace / --define
                if 'repl_file' in opts:
                    fn = opts.pop('repl_file')
                    if ('r', fn) not in shared:
                        shared[('r', fn)] = tex2txt.read_replacements(fn, 'utf-8')
                    opts['repl'] = shared[('r', fn)]
                if 'defs_file' in opts:
                    fn = opts.pop('defs_file')
                    if ('d', fn) not in shared:
                        shared[('d', fn)] = tex2txt.read_definitions(fn, 'utf-8')
                    opts['defs'] = shared[('d', fn)]
                res = tex2txt.tex2txt(it['src'], tex2txt.Options(**opts), multi_language=it['ml'])
        except BaseException as e:      # noqa
            exc = '%s: %s' % (type(e).__name__, e)
        after = fingerprint()
        changed = sorted(k for k in after if k in before and before[k] != after[k]
                         and not k.endswith('__slotnames__'))
        if isinstance(res, tuple):
            res = [res[0], list(res[1])]
        out.append({'item': i, 'result': res, 'stderr': err.getvalue(), 'exception': exc, 'changed': changed})
    json.dump(out, sys.stdout)


if __name__ == '__main__':
    main()
