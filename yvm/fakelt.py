"""Programmable fake proofreader: stands exactly where LanguageTool would be
(`yalafi.shell --lt-command "<python> -S /verif/yvm/fakelt.py"`), in its own process.

 - appends {argv, text} to the request log named by YVM_LT_LOG (the call event at the
   client boundary);
 - answers according to the plan file named by YVM_LT_PLAN:
     {"mode": "words", "regex": "...", "every": k, "extra": [...]}   flag words (unique message ids)
     {"mode": "offsets", "pairs": [[offset, length], ...]}            flag given places (first call; "all_calls")
     {"mode": "raw", "data": "<base64>", "exit": n}                   emit prepared bytes verbatim
     {"mode": "empty"}                                                  valid answer without matches
   each match carries a unique message 'MSG<call>.<k>:<flagged text>' and an LT-like context.
Pure stdlib, started with -S for speed.
"""
import base64
import json
import os
import re
import sys


def context(txt, o, n):
    beg = max(0, o - 40)
    end = min(len(txt), o + n + 40)
    s = txt[beg:end].replace('\n', ' ').replace('\t', ' ')
    return {'text': s, 'offset': o - beg, 'length': n}


def match(txt, o, n, mid, extra=None):
    m = {'message': 'MSG%s:%s' % (mid, txt[o:o + n][:30]),
         'shortMessage': 'short',
         'replacements': [{'value': 'repl<%s>&"' % mid}],
         'offset': o, 'length': n,
         'context': context(txt, o, n),
         'sentence': 'S',
         'rule': {'id': 'RULE_' + mid.replace('.', '_'), 'description': 'd', 'issueType': 'misspelling',
                  'category': {'id': 'CAT', 'name': 'Category<&>'}}}
    if extra:
        m.update(extra)
    return m


def main():
    txt = sys.stdin.buffer.read().decode('utf-8', 'replace')
    args = sys.argv[1:]
    log = os.environ.get('YVM_LT_LOG')
    ncall = 0
    if log:
        try:
            with open(log) as f:
                ncall = sum(1 for _ in f)
        except OSError:
            ncall = 0
        with open(log, 'a') as f:
            f.write(json.dumps({'argv': args, 'text': txt}) + '\n')
    plan = {'mode': 'empty'}
    pf = os.environ.get('YVM_LT_PLAN')
    if pf:
        with open(pf) as f:
            plan = json.load(f)
    mode = plan.get('mode')
    if mode == 'raw':
        if not plan.get('all_calls', True) and ncall > 0:
            sys.stdout.write(json.dumps({'matches': []}))
            return 0
        sys.stdout.buffer.write(base64.b64decode(plan['data']))
        sys.stdout.flush()
        return plan.get('exit', 0)
    ms = []
    if mode == 'words':
        k = 0
        for m in re.finditer(plan['regex'], txt):
            k += 1
            if plan.get('every') and k % plan['every']:
                continue
            ms.append(match(txt, m.start(), len(m.group(0)), '%d.%d' % (ncall, k)))
        for j, (kind, rx) in enumerate(plan.get('extra', [])):
            m = re.search(rx, txt)
            if not m:
                continue
            mid = '%d.x%d' % (ncall, j)
            if kind == 'span':
                ms.append(match(txt, m.start(), len(m.group(0)), mid))
            elif kind == 'zero':
                ms.append(match(txt, m.start(), 0, mid))
            elif kind == 'char':
                ms.append(match(txt, m.start(), 1, mid))
    elif mode == 'offsets':
        if plan.get('all_calls') or ncall == 0:
            for k, (o, n) in enumerate(plan['pairs']):
                o2 = max(0, min(o, len(txt)))
                ms.append(match(txt, o2, max(0, min(n, len(txt) - o2)), '%d.%d' % (ncall, k),
                                {'offset': o, 'length': n}))
    ms.sort(key=lambda m: m['offset'])
    out = {'software': {'name': 'fake'}, 'language': {'code': 'xx'}, 'matches': ms}
    sys.stdout.write(json.dumps(out, ensure_ascii=bool(plan.get('ascii', False))))
    return plan.get('exit', 0)


if __name__ == '__main__':
    sys.exit(main())
