"""Environment: locate the repository, import YaLafi from /repo's working tree."""
import os
import sys

VERIF = os.path.dirname(os.path.dirname(os.path.abspath(__file__)))
REPO = os.environ.get('YVM_REPO', '/repo')
PY = sys.executable or '/venv/bin/python'

sys.dont_write_bytecode = True
if REPO not in sys.path:
    sys.path.insert(0, REPO)


def child_env(extra=None):
    """environment for child processes (workers, real CLI / shell runs)"""
    env = dict(os.environ)
    env['PYTHONPATH'] = REPO + os.pathsep + VERIF
    env['PYTHONDONTWRITEBYTECODE'] = '1'
    env['PYTHONHASHSEED'] = '0'
    env['YALAFI_VERIF'] = '1'
    env.pop('PYTHONSTARTUP', None)
    if extra:
        env.update(extra)
    return env


def import_yalafi():
    import yalafi
    p = os.path.realpath(yalafi.__file__)
    if not p.startswith(os.path.realpath(REPO) + os.sep):
        raise RuntimeError('yalafi imported from %s, not from %s' % (p, REPO))
    return yalafi
