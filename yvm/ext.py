"""Extension module loaded through YaLafi's documented `--pack .module` mechanism
(pack='*,.yvm.ext'): declares environments / macros of kinds the built-in tables
do not contain (removed environments with replacement text, removed equation
environments), so that those code paths are reachable by generated documents."""
from yalafi.defs import InitModule, Macro, Environ, EquEnv

require_packages = []


def init_module(parser, options, position):
    parms = parser.parms
    macros_python = [
        Macro(parms, '\\yvmswap', args='OA', repl='#2 #1', defaults=['yvmdflt']),
        Macro(parms, '\\yvmtwice', args='A', repl='#1 yvmmid #1'),
        Macro(parms, '\\yvmdrop', args='AA', repl='#2'),
    ]
    environments = [
        Environ(parms, 'yvmremoved', remove=True, repl='yvmrepl'),
        Environ(parms, 'yvmremovedarg', args='A', remove=True, repl='yvmrepl #1'),
        Environ(parms, 'yvmkeep', args='O', repl='yvmtitle', add_pars=True),
        EquEnv(parms, 'yvmequ', remove=True),
        EquEnv(parms, 'yvmequrepl', repl='  yvmformula', remove=True),
    ]
    return InitModule(macros_latex='', macros_python=macros_python, environments=environments)
