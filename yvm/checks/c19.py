"""C19 - the unknowns list names exactly the undeclared macros / environments used in text.

Oracle: ordered-set equality between the --unkn output and the list of fresh names the
generator used outside maths, in order of first use.
"""
import os
import random
import re
import shutil
import subprocess
import tempfile

from .. import core, env, tex
from ..gen import soup as gsoup

DECL_ALL = ['\\LaTeX', '\\label{k}', '\\ref{k}', '\\cite{k}', '\\hfill', '\\S', '\\newline', '\\qquad', '\\footnotemark',
            '\\index{k}', '\\pageref{k}', '\\TeX', '\\par', '\\vspace{1ex}', '\\hspace{1cm}', '\\LTadd{x}', '\\ss{}']
DECL_PKG = {'xcolor': ['\\textcolor{red}{x}', '\\color{red}', '\\colorbox{c}{x}'],
            'amsmath': ['\\eqref{k}', '\\notag', '\\begin{align} a &= b \\end{align}', '$a \\text{ x } b$'],
            'hyperref': ['\\texorpdfstring{a}{b}', '\\href{u}{x}', '\\url{u}'],
            'graphicx': ['\\includegraphics{f}'],
            'tikz': ['\\tikzset{a}', '\\begin{tikzpicture}\\end{tikzpicture}'],
            'biblatex': ['\\parencite{k}', '\\printbibliography'],
            'amsthm': ['\\begin{proof} x\\end{proof}', '\\theoremstyle{plain}'],
            'listings': ['\\lstset{a}', '\\begin{lstlisting} x \\end{lstlisting}', '\\lstinputlisting{f}'],
            'babel': ['\\selectlanguage{english}', '\\foreignlanguage{german}{x}',
                      # (environments whose handlers work with internal helper macros)
                      '\\begin{otherlanguage}{german} x \\end{otherlanguage} y',
                      '\\begin{otherlanguage*}{french} x \\end{otherlanguage*} y'],
            'glossaries': ['\\glsdisp{l}{x}'],
            'xspace': ['\\xspace{}']}
DECL_ENV = ['itemize', 'enumerate', 'figure', 'table', 'tabular{c}', 'minipage{3cm}', 'verbatim']
PACKS = ['*', '*', '', 'xcolor,amsmath', 'hyperref,graphicx,tikz', 'biblatex,amsthm,listings', 'babel,glossaries,xspace',
         '*,amsmath', 'babel,xcolor,*', 'amsthm,*,tikz']
DCLS = ['', '', 'article', 'scrartcl', 'book']
LET = 'abcdefghijklmnopqrstuvwxyz'


def pkgset(pack):
    # a list of package names and placeholders: '*' stands for the default list, wherever it is in the list
    out = set()
    for p in pack.split(','):
        if p == '*':
            out |= set(DECL_PKG)
        elif p:
            out.add(p)
    return out


def build(rnd, pack, dcls):
    """-> (source, expected list)"""
    names = ['\\zq' + LET[i] + rnd.choice(LET) for i in range(rnd.randint(1, 7))]
    names = list(dict.fromkeys(names))
    envs = ['zenv' + LET[i] for i in range(rnd.randint(0, 3))]
    decl = list(DECL_ALL)
    for p in sorted(pkgset(pack)):
        decl += DECL_PKG[p]
    if dcls.startswith('scr'):
        decl.append('\\KOMAoptions{a}')
    exp = []
    parts = []
    defined = set()

    def rec(n):
        if n not in defined and n not in exp:
            exp.append(n)

    def use(n):
        if n in defined:
            return n + '{w}{v}'
        # (a letter outside ASCII directly behind the name ends the control word, as a digit does)
        return n + rnd.choice(['', ' ', '{w}', '{w}{v}', '{}', '\n', '\u00e9t\u00e9', '\u0436', '1', '\u00e4 '])
    for _ in range(rnd.randint(2, 14)):
        ctx = rnd.choice(['text', 'text', 'text', 'unkarg', 'declarg', 'foot', 'head', 'item', 'env', 'inline',
                          'display', 'comment', 'skip', 'ltskip', 'decl', 'uenv', 'define', 'declenv', 'cell',
                          'caption', 'nested_unk', 'mathtext', 'verb', 'group', 'usermacarg', 'theorem', 'inspect', 'deftheorem', 'removedenv'])
        n = rnd.choice(names)
        if ctx == 'text':
            parts.append('w ' + use(n) + ' w')
            rec(n)
        elif ctx == 'removedenv':
            # the body of an environment that leaves no text is still interpreted: names used (and definitions made)
            # there count
            ps = pkgset(pack)
            env_ = 'tikzpicture' if 'tikz' in ps else 'lstlisting' if 'listings' in ps else None
            if env_:
                parts.append('\\begin{%s} a ' % env_ + use(n) + ' \\end{%s}' % env_)
                rec(n)
            else:
                parts.append('w')
        elif ctx == 'group':
            parts.append('{w ' + use(n) + '}')
            rec(n)
        elif ctx == 'unkarg':
            m = rnd.choice([x for x in names if x not in defined] or ['\\zqzz'])
            parts.append(m + '{a ' + use(n) + ' b}')
            rec(m)
            rec(n)
        elif ctx == 'nested_unk':
            m = rnd.choice([x for x in names if x not in defined] or ['\\zqzz'])
            parts.append('\\emph{' + m + '{a \\textbf{' + use(n) + '} b}}')
            rec('\\emph')
            rec(m)
            rec('\\textbf')
            rec(n)
        elif ctx == 'declarg':
            parts.append('\\LTadd{a ' + use(n) + ' b}')
            rec(n)
        elif ctx == 'inspect':
            # arguments that the filter expands only to look at them (lengths, phantom text, theorem titles)
            k = rnd.randrange(4)
            if k == 0:
                parts.append('w\\hspace{' + use(n) + '}w')
            elif k == 1:
                parts.append('w \\phantom{a ' + use(n) + '} w')
            elif k == 2:
                parts.append('w \\hphantom{' + use(n) + '} w')
            else:
                parts.append('\\newtheorem{zthm%s}{T ' % rnd.choice(LET) + use(n) + '}')
            rec(n)
        elif ctx == 'foot':
            parts.append('w\\footnote{a ' + use(n) + ' b}')
            rec(n)
        elif ctx == 'caption':
            parts.append('\\caption{a ' + use(n) + ' b}')
            rec(n)
        elif ctx == 'head':
            parts.append('\\section{a ' + use(n) + ' b}')
            rec(n)
        elif ctx == 'item':
            parts.append('\\begin{itemize}\\item ' + use(n) + ' x\\end{itemize}')
            rec(n)
        elif ctx == 'cell':
            parts.append('\\begin{tabular}{cc}x & ' + use(n) + ' \\\\ y\\end{tabular}')
            rec(n)
        elif ctx == 'env':
            parts.append('\\begin{minipage}{3cm} ' + use(n) + ' x\\end{minipage}')
            rec(n)
        elif ctx == 'theorem':
            parts.append('\\newtheorem{ythm}{T}\\begin{ythm} ' + use(n) + ' x\\end{ythm}')
            rec(n)
        elif ctx == 'usermacarg':
            parts.append('\\newcommand{\\yuse}[1]{b #1 b}\\yuse{' + use(n) + '}')
            rec(n)
        elif ctx == 'inline':
            a, b = rnd.choice([('$', '$'), ('\\(', '\\)')])
            parts.append(a + 'a ' + use(n) + ' + \\alpha' + b)
        elif ctx == 'display':
            parts.append(rnd.choice(['\\[ a ' + use(n) + ' \\]',
                                     '\\begin{equation} ' + use(n) + ' = \\beta \\end{equation}',
                                     '$$ ' + use(n) + ' $$',
                                     '\\begin{eqnarray*} \\begin{zmathenv} ' + use(n) + '\\end{zmathenv} \\end{eqnarray*}']))
        elif ctx == 'mathtext':
            # text mode inside maths: not judged for names (statement is silent) -> only declared names
            parts.append('$a \\mbox{w \\LaTeX{} w} b$')
            if not pkgset(pack) & {'amsmath', 'mathtools'}:
                # without amsmath, \text is one more unknown name inside maths, and so is all of its argument
                parts.append('$y \\text{ for all ' + use(n) + '}$')
        elif ctx == 'comment':
            parts.append('w %' + use(n).replace('\n', ' ') + ' \\begin{zcommentenv}\nw')
        elif ctx == 'skip':
            parts.append('%%% LT-SKIP-BEGIN\n' + use(n) + ' \\begin{zskipenv}\n%%% LT-SKIP-END\n')
        elif ctx == 'ltskip':
            parts.append('\\LTskip{' + use(n) + '}')
            # argument of \\LTskip is discarded without expansion
        elif ctx == 'verb':
            parts.append('\\verb|' + n + '| \\begin{verbatim}' + n + ' \\begin{zverbenv}\\end{verbatim}')
        elif ctx == 'decl':
            parts.append(rnd.choice(decl))
        elif ctx == 'declenv':
            e = rnd.choice(DECL_ENV)
            parts.append('\\begin{%s}%s w \\end{%s}' % (e.split('{')[0], e[len(e.split('{')[0]):], e.split('{')[0]))
        elif ctx == 'uenv' and envs:
            e = rnd.choice(envs)
            parts.append('\\begin{%s}%s w \\end{%s}' % (e, rnd.choice(['', '[o]', '{a}']), e))
            if e not in exp and e not in defined:
                exp.append(e)
        elif ctx == 'deftheorem' and envs:
            # from here on the environment is declared (in this document only: the worker process filters many
            # documents that use the same names undeclared)
            e = rnd.choice(envs)
            parts.append('\\newtheorem{%s}{T}' % e)
            defined.add(e)
        elif ctx == 'define':
            parts.append('\\newcommand{%s}[2]{D}' % n if rnd.random() < .5 else '\\def%s#1#2{D}' % n)
            defined.add(n)
    src = rnd.choice([' ', '\n', '\n\n']).join(parts)
    return src, exp


class C19(core.Check):
    id = 'C19'
    level = 'exploration'
    technique = 'runtime monitor: ordered-set equality between the unknowns list and the generator-known undeclared names'
    rule = ('documents of 2-14 constructs mixing fresh undeclared macro / environment names (checked against the live '
            'tables) and declared names (built-in, per loaded package / class, defined earlier in the document) in text, '
            'arguments of unknown / declared / user macros, footnotes, captions, headings, items, cells, environments, '
            'theorem bodies, arguments that are expanded for inspection only (\\hspace, \\phantom, theorem titles), inline and display maths (both delimiters, environments inside maths), comments, skipped '
            'regions, \\LTskip, \\verb / verbatim; package selections %s, classes %s; through tex2txt(unkn=True), and '
            'a sample through `python -m yalafi --unkn` and `yalafi.shell --list-unknown`. non-trivial = expected list '
            'non-empty and the document also uses names that must not be listed; distinct = distinct (source, options)'
            % (PACKS, DCLS))
    level_text = ('Exploration: set equality (with order) over thousands of generated documents and package '
                  'selections; the generator knows which names are undeclared at each point of use.')
    level_note = 'Names inside \\text / \\mbox in maths and inside discarded arguments are not generated (statement is silent).'
    design_ref = 'DESIGN.md section 4, C19'
    assumptions = ['fresh names \\zq.. / zenv.. are undeclared in every package (verified against the live tables at start)']

    def setup(self, tier):
        macs, envs, _ = gsoup.vocab()
        bad = [m for m in macs if m.startswith('\\zq')] + [e for e in envs if e.startswith('zenv')]
        if bad:
            raise RuntimeError('fresh names are declared: %r' % bad)
        self.tmp = tempfile.mkdtemp(prefix='yvm_c19_')

    def teardown(self):
        shutil.rmtree(self.tmp, ignore_errors=True)

    def cases(self, tier, seed, shard, nshards):
        rnd = core.sub_rng('C19', seed, shard)
        n = (6000 if tier == 'quick' else 100000) // nshards
        ncli = (128 if tier == 'quick' else 960) // nshards
        for i in range(n):
            yield dict(s=rnd.getrandbits(48), pack=rnd.choice(PACKS), dcls=rnd.choice(DCLS), via='api',
                       lang=rnd.choice(['en', 'de']))
        for i in range(ncli):
            yield dict(s=rnd.getrandbits(48), pack=rnd.choice(PACKS), dcls=rnd.choice(DCLS),
                       via='cli' if i % 2 else 'shell', lang='en')

    def judge(self, case):
        src, exp = build(random.Random(case['s']), case['pack'], case['dcls'])
        cnt = {'via_' + case['via']: 1}
        if case['via'] == 'api':
            extra = {}
            if case['s'] % 5 == 0:
                # a phrase-replacement list must not rewrite the list of names
                extra['repl'] = ['%s & replaced name\n' % n.lstrip('\\') for n in exp[:3]] + ['w & W\n']
                cnt['with_repl_option'] = 1
            if case['s'] % 7 == 0:
                extra['seqs'] = True
            (t, p), err = tex.run(src, unkn=True, pack=case['pack'], dcls=case['dcls'], lang=case['lang'], **extra)
            if len(t) != len(p):
                return dict(ok=False, nt=True, key='length', cnt=cnt, obs=None, detail=dict(src=src, out=t))
        elif case['via'] == 'cli':
            cmd = [env.PY, '-m', 'yalafi', '--unkn', '--pack', case['pack'], '--dcls', case['dcls']]
            pr = subprocess.run(cmd, input=src.encode(), capture_output=True, timeout=120, cwd=self.tmp,
                                env=env.child_env())
            if pr.returncode != 0:
                return dict(ok=False, nt=True, key='cli-exit', cnt=cnt, obs=None,
                            detail=dict(src=src, stderr=pr.stderr.decode()[-800:]))
            t = pr.stdout.decode()
        else:
            fn = os.path.join(self.tmp, 'in.tex')
            with open(fn, 'w') as f:
                f.write(src)
            cmd = [env.PY, '-m', 'yalafi.shell', '--list-unknown', '--no-config', '--packages', case['pack'],
                   '--documentclass', case['dcls']]
            # other options must not turn the list into something else (they may come from a configuration file)
            k = case['s'] % 6
            extra = [[], ['--multi-language'], ['--output', 'json'], ['--multi-language', '--output', 'html'],
                     ['--single-letters', 'A|I', '--equation-punctuation', 'all'], ['--simple-equations', '--language', 'de-DE']][k]
            if extra:
                cnt['shell_with_other_options'] = 1
            cmd += extra + [fn]
            pr = subprocess.run(cmd, capture_output=True, timeout=120, cwd=self.tmp, env=env.child_env())
            if pr.returncode != 0:
                return dict(ok=False, nt=True, key='shell-exit', cnt=cnt, obs=None,
                            detail=dict(src=src, stderr=pr.stderr.decode()[-800:]))
            t = pr.stdout.decode()
            t = re.sub(r'^=== .* ===\n', '', t)
        got = [x for x in t.split('\n') if x]
        detail = dict(src=src, got=got, want=exp, pack=case['pack'], dcls=case['dcls'])
        if t and not t.endswith('\n'):
            return dict(ok=False, nt=True, key='format', cnt=cnt, obs=None, detail=detail)
        if got != exp:
            if sorted(set(got)) == sorted(set(exp)) and len(got) == len(exp):
                key = 'order'
            elif len(got) != len(set(got)):
                key = 'duplicate'
            elif set(exp) - set(got):
                key = 'omitted'
            else:
                x = sorted(set(got) - set(exp))[0]
                key = 'spurious:' + ('declared' if not x.startswith(('\\zq', 'zenv', '\\emph', '\\textbf')) else
                                     'not-in-text')
            return dict(ok=False, nt=True, key=key, cnt=cnt, obs=None, detail=detail)
        cnt['names_listed'] = len(exp)
        hidden = bool(re.search(r'\$|\\\[|\\\(|%|LTskip|\\begin\{equation', src))
        if hidden:
            cnt['docs_with_names_in_maths_or_hidden'] = 1
        return dict(ok=True, nt=bool(exp) and hidden, key=None, cnt=cnt,
                    obs=dict(src=tex.short(src, 250), listed=exp))

    def quotas(self, tier):
        return {'with_repl_option': 300, 'via_api': 3000, 'via_cli': 10, 'via_shell': 10, 'shell_with_other_options': 20, 'names_listed': 5000,
                'docs_with_names_in_maths_or_hidden': 2000}


CHECK = C19
