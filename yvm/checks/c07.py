"""C07 - the filter is total: arbitrary input never crashes or hangs it.

Oracle: every call returns a result of the documented shape within a logical step
budget (function entries in YaLafi code, sys.monitoring) and a CPU-time backstop.
Any exception is a violation; SystemExit / budget overrun is a violation unless the
real parser state shows one of the statement's exclusions.
"""
import os
import re
import subprocess
import tempfile

from .. import core, env, probe, tex
from ..gen import soup as gsoup
from yalafi import defs as ydefs

STEP_A = 300000        # budget = STEP_A + STEP_B * len(source [+ defs])
STEP_B = 2000
CPU_SECONDS = 20

DIAG_KINDS = [('cannot find closing', 'diag_open_argument'), ('missing end of maths', 'diag_open_maths'),
              ('bad \\verb', 'diag_bad_verb'), ('missing end of verbatim', 'diag_open_verbatim'),
              ('text-mode accent', 'diag_accent'), ('\\def:', 'diag_def'), ('could not read file', 'diag_ltinput'),
              ('cannot find closing LaTeX comment', 'diag_open_skip'), ('illegal argument', 'diag_illegal_arg'),
              ('could not find UTF-8', 'diag_accent_lookup')]


def shape_ok(r, ml):
    if ml:
        if not isinstance(r, dict):
            return False
        for k, parts in r.items():
            if not isinstance(k, str) or not isinstance(parts, list):
                return False
            for p in parts:
                if len(p) != 2 or not isinstance(p[0], str) or len(p[0]) != len(p[1]):
                    return False
                if not all(isinstance(x, int) for x in p[1]):
                    return False
        return True
    return (isinstance(r, tuple) and len(r) == 2 and isinstance(r[0], str) and isinstance(r[1], list)
            and len(r[0]) == len(r[1]) and all(isinstance(x, int) for x in r[1]))


def exclusion(parser, src, stderr_txt, kind):
    """-> reason string if the failing run falls under one of the statement's exclusions"""
    if 'is not an EquEnv' in stderr_txt or "no environment for '$$'" in stderr_txt:
        return 'default-equation-environment-redefined'
    if parser is None:
        return None
    macs = parser.the_macros
    graph = {}
    dup = set()
    dyn = False
    for name, m in macs.items():
        toks = []
        if isinstance(m.repl, list):
            toks += m.repl
        for d in (m.defaults or []):
            toks += d
        toks += list(m.extract or [])
        graph[name] = {t.txt for t in toks if type(t) is ydefs.MacroToken}
        if graph[name] & {'\\newcommand', '\\renewcommand', '\\def', '\\newtheorem', '\\LTinput'}:
            dyn = True
        args = [t.arg for t in toks if type(t) is ydefs.ArgumentToken]
        if len(args) != len(set(args)):
            dup.add(name)
    # a user macro reachable from itself?
    for start in graph:
        seen = set()
        todo = list(graph[start])
        while todo:
            n = todo.pop()
            if n == start:
                return 'recursive-definition'
            if n in seen or n not in graph:
                continue
            seen.add(n)
            todo += list(graph[n])
    if dyn and kind in ('steps', 'cpu', 'RecursionError', 'SystemExit'):
        return 'definition-inside-macro-body'
    if kind in ('steps', 'cpu'):
        ndup = sum(src.count(n) for n in dup)
        if ndup >= 8:
            return 'expansion-size'
    if kind == 'RecursionError' or 'included recursively' in stderr_txt:
        depth = max(src.count('{'), src.count('\\begin'))
        if depth > 150:
            return 'nesting-deeper-than-stack'
    return None


def guarded_run(clock, cap, src, opts, ml):
    """run the real filter under the step budget and the CPU backstop
    -> (kind, result, stderr, steps, traceback, limit); kind is None if the call returned"""
    import contextlib
    import io
    from yalafi import tex2txt
    limit = STEP_A + STEP_B * (len(src) + len(opts.get('defs') or ''))
    cap.last = None
    clock.begin(limit)
    kind = None
    r = None
    buf = io.StringIO()
    tb = None
    try:
        with probe.CpuGuard(CPU_SECONDS):
            with contextlib.redirect_stderr(buf):
                o = dict(opts)
                o.setdefault('pack', '*')
                r = tex2txt.tex2txt(src, tex2txt.Options(**o), multi_language=ml)
    except probe.StepBudgetExceeded:
        kind = 'steps'
    except probe.CpuBudgetExceeded:
        kind = 'cpu'
    except SystemExit:
        kind = 'steps' if clock.exceeded else 'SystemExit'
    except RecursionError as e:
        kind = 'RecursionError'
        tb = e.__traceback__
    except BaseException as e:      # noqa
        kind = 'steps' if clock.exceeded else type(e).__name__
        tb = e.__traceback__
    finally:
        clock.limit = None
    return kind, r, buf.getvalue(), clock.count, tb, limit


class C07(core.Check):
    id = 'C07'
    level = 'fault_enumeration'
    technique = 'runtime monitor: exception / exit / step-budget monitor over token soups, prefixes, token deletions'
    rule = ('soup: 1-40 items over a vocabulary of every macro and environment name of the live tables (all packages, '
            'classes, cleveref, extension module) + fragments + exotic characters, under random option sets '
            '(lang, pack, dcls, defs, extr, seqs, nosp, repl, unkn, multi-language); prefix / delete: every prefix and '
            'every single-token deletion of generated well-formed documents; cli: soups through `python -m yalafi`. '
            'non-trivial = the input contains at least one LaTeX-active character; distinct = distinct (source, options)')
    level_text = ('Fault enumeration: malformed inputs are produced systematically (token soups over the complete live '
                  'macro / environment vocabulary; every truncation point and every single-token deletion of generated '
                  'documents) and the real filter is observed for exceptions, fatal exits and overruns of a logical '
                  'step budget. Totality is a universal over strings; only sampling plus exhaustive local mutation of '
                  'sampled documents is possible.')
    level_note = ('Non-termination is judged against a step budget (A + B*len, function entries in YaLafi code) with a '
                  'CPU-time backstop; exclusions of the statement are recognised from the real parser state.')
    design_ref = 'DESIGN.md section 4, C07'
    assumptions = ['step budget %d + %d*len(source) function entries; CPU backstop %ds' % (STEP_A, STEP_B, CPU_SECONDS),
                   'exclusions (recursive definitions, expansion size, nesting depth, default equation environment) '
                   'are recognised by inspecting the_macros of the real parser after the failing call']

    def setup(self, tier):
        self.clock = probe.StepClock()
        self.clock.start()
        self.cap = probe.ParserCapture()
        self.tmp = tempfile.mkdtemp(prefix='yvm_c07_')

    def teardown(self):
        self.clock.stop()
        self.cap.restore()
        import shutil
        shutil.rmtree(self.tmp, ignore_errors=True)

    def cases(self, tier, seed, shard, nshards):
        rnd = core.sub_rng('C07', seed, shard)
        n = (36000 if tier == 'quick' else 1500000) // nshards
        ncli = (96 if tier == 'quick' else 960) // nshards
        from ..gen import docs as gdocs
        i = 0
        while i < n:
            for _ in range(40):
                yield dict(fam='soup', src=gsoup.soup(rnd), opts=gsoup.rand_opts(rnd), ml=rnd.random() < .3)
                i += 1
            pack = rnd.choice(gdocs.PACK_CHOICES)
            d = gdocs.random_document(rnd, size=rnd.randint(1, 4), pack=pack, max_depth=4,
                                      theorems=rnd.random() < .3)
            opts = gsoup.rand_opts(rnd) if rnd.random() < .4 else dict(lang='en')
            opts['pack'] = pack
            ml = rnd.random() < .25
            src = d.src
            if rnd.random() < .5:
                # every prefix of the body (preamble: every 9th)
                ks = list(range(0, d.body_start, 9)) + list(range(d.body_start, len(src)))
                for k in ks[:400]:
                    yield dict(fam='prefix', src=src[:k], opts=opts, ml=ml)
                    i += 1
            else:
                toks = gdocs.rough_tokens(src)
                body = len(gdocs.rough_tokens(src[:d.body_start]))
                ks = list(range(0, body, 5)) + list(range(body, len(toks)))
                for k in ks[:400]:
                    yield dict(fam='delete', src=''.join(toks[:k] + toks[k + 1:]), opts=opts, ml=ml)
                    i += 1
        for _ in range(ncli):
            yield dict(fam='cli', src=gsoup.soup(rnd), opts=gsoup.rand_opts(rnd), ml=False)

    def judge(self, case):
        src, opts, ml = case['src'], case['opts'], case['ml']
        cnt = {'fam_' + case['fam']: 1}
        nt = bool(re.search(r'[\\{}$%#&~^_\[\]]', src))
        if case['fam'] == 'cli':
            return self.judge_cli(case, cnt, nt)
        kind, r, err, steps, tb, limit = guarded_run(self.clock, self.cap, src, opts, ml)
        cnt['max_steps'] = steps
        cnt['max_steps_per_char'] = steps // (len(src) + len(opts.get('defs') or '') + 20)
        for pat, name in DIAG_KINDS:
            if pat in err:
                cnt[name] = 1
        if kind is None:
            if not shape_ok(r, ml):
                return dict(ok=False, nt=True, key='shape', cnt=cnt, obs=None, detail={'result': tex.short(r)})
            cnt['returned'] = 1
            return dict(ok=True, nt=nt, key=None, cnt=cnt,
                        obs={'steps': steps, 'stderr': tex.short(err, 100), 'result': tex.short(r, 100)})
        why = exclusion(self.cap.last, src + (opts.get('defs') or ''), err, kind)
        if why:
            cnt['excluded:' + why] = 1
            return dict(ok=True, nt=False, key=None, cnt=cnt, obs=None)
        where = ''
        if tb is not None:
            where = '@' + core.exc_origin(tb)[1]
        import traceback
        return dict(ok=False, nt=True, key='%s%s' % (kind, where), cnt=cnt, obs=None,
                    detail={'kind': kind, 'steps': steps, 'limit': limit, 'stderr': err[-1500:],
                            'traceback': ''.join(traceback.format_tb(tb))[-2500:] if tb else None})

    def judge_cli(self, case, cnt, nt):
        opts = case['opts']
        cmd = [env.PY, '-m', 'yalafi']
        nums = os.path.join(self.tmp, 'nums.txt')
        cmd += ['--nums', nums]
        for k in ('lang', 'pack', 'dcls', 'extr'):
            if opts.get(k) is not None:
                cmd += ['--' + k, opts[k]]
        for k in ('seqs', 'nosp', 'unkn'):
            if opts.get(k):
                cmd.append('--' + k)
        if opts.get('defs'):
            p = os.path.join(self.tmp, 'defs.tex')
            with open(p, 'w', encoding='utf-8', newline='') as f:
                f.write(opts['defs'])
            cmd += ['--defs', p]
        if opts.get('repl'):
            p = os.path.join(self.tmp, 'repl.txt')
            with open(p, 'w', encoding='utf-8') as f:
                f.writelines(opts['repl'])
            cmd += ['--repl', p]
        src = case['src'].replace('\r', ' ').replace('\x00', ' ')
        try:
            pr = subprocess.run(cmd, input=src.encode('utf-8', 'replace'), capture_output=True, timeout=120,
                                cwd=self.tmp, env=env.child_env())
        except subprocess.TimeoutExpired:
            # the same input through the library call, under the step clock: is it one of the stated exclusions
            # (self-calling definition, expansion size)?
            o = {k: v for k, v in opts.items() if k in ('lang', 'pack', 'dcls', 'defs', 'nosp', 'repl', 'unkn', 'seqs', 'extr')}
            kind, r, errtxt, steps, tb, limit = guarded_run(self.clock, self.cap, src, o, bool(case.get('ml')))
            if kind is not None:
                why = exclusion(self.cap.last, src + (o.get('defs') or ''), errtxt, kind)
                if why:
                    cnt['excluded:' + why] = 1
                    return dict(ok=True, nt=False, key=None, cnt=cnt, obs=None)
            return dict(ok=False, nt=True, key='cli:timeout', cnt=cnt, obs=None,
                        detail={'cmd': cmd, 'src': src, 'library_call': kind})
        err = pr.stderr.decode('utf-8', 'replace')
        if pr.returncode != 0 or 'Traceback' in err:
            if 'is not an EquEnv' in err:
                cnt['excluded:default-equation-environment-redefined'] = 1
                return dict(ok=True, nt=False, key=None, cnt=cnt, obs=None)
            m = re.findall(r'(\w+(?:Error|Exception))', err)
            return dict(ok=False, nt=True, key='cli:exit%d:%s' % (pr.returncode, m[-1] if m else ''), cnt=cnt,
                        obs=None, detail={'cmd': cmd, 'stderr': err[-2000:]})
        cnt['cli_returned'] = 1
        return dict(ok=True, nt=nt, key=None, cnt=cnt, obs={'exit': 0, 'stdout_len': len(pr.stdout)})

    def quotas(self, tier):
        return {'returned': 20000, 'fam_soup': 8000, 'fam_prefix': 3000, 'fam_delete': 3000, 'cli_returned': 50,
                'diag_open_argument': 200, 'diag_open_maths': 200, 'diag_bad_verb': 50, 'diag_open_verbatim': 20,
                'diag_accent': 20, 'diag_open_skip': 20}


CHECK = C07
