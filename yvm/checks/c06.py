"""C06 - plain prose is a fixed point; special sequences follow the documented table.

Oracle: table model (longest match at each offset; everything else copied; map =
1-based offset of the first character of each unit).  Exhaustive over all strings
of <= 3 (quick) / <= 4 (thorough) atoms, plus random longer strings and pure prose.
"""
import itertools
import os

from .. import core, env, tex

TAB = {'---': '—', '--': '–', '``': '“', "''": '”', '~': '\xa0',
       '\\,': '\u202f', '\\%': '%', '\\&': '&', '\\$': '$', '\\#': '#', '\\_': '_',
       '\\{': '{', '\\}': '}', '\\\\': ' ', '&': ' '}
KEYS = sorted(TAB, key=lambda s: -len(s))

ATOMS = ['a', 'B', ' ', '\n', '.', ',', '-', "'", '`', '~', '\\,', '\\%', '\\&', '\\$',
         '\\#', '\\_', '\\{', '\\}', '\\\\', '&']

PROSE = list('abcxyzQRS019.,;:!?()/=+*<>|@"\'') + ['ä', 'é', 'ß', 'ж', 'Ω', '中', '\U0001d538',
                                                   'é', '​']
PROSE_WS = [' ', ' ', ' ', '\n', '\n', '  ', '\n\n', '\t', '\n \n', ' \n', '\x0b', '\x0c', '\x1c',
            '\x85', ' ', '\u3000', '\u2009', '\u2003', '\n\n\n', '\r\n', '\r']
RAND = ATOMS + ['c', 'D', 'é', 'ж', '1', ';', ':', '!', '(', ')', '--', '---', '``', "''", '  ',
                '\n\n', '\t', '"', '*', '*', '=', '+', '/', '<', '>', '|', '@', '?', '0']


def units(s):
    """[(start, source piece, output piece)]"""
    out = []
    i = 0
    while i < len(s):
        for k in KEYS:
            if s.startswith(k, i):
                out.append((i, k, TAB[k]))
                i += len(k)
                break
        else:
            out.append((i, s[i], s[i]))
            i += 1
    return out


def model(s):
    us = units(s)
    return ''.join(u[2] for u in us), [u[0] + 1 for u in us for _ in u[2]]


def excluded(s):
    """a special sequence stands on an otherwise blank line (statement: that is C05)"""
    lines = [[]]
    for _, src, outp in units(s):
        if src in TAB:
            lines[-1].append(('S', outp))
        elif src == '\n':
            lines.append([])
        else:
            lines[-1].append(('C', src))
    for ln in lines:
        if any(t == 'S' for t, _ in ln) and all(not c.strip() for t, c in ln if t == 'C'):
            return True
    return False


CONFIGS = [dict(lang=None, pack='*'), dict(lang='en', pack=''), dict(lang='ru', pack='*'),
           dict(lang='de', pack='*'), dict(lang='en', pack='*', dcls='article'),
           dict(lang='xx-YY', pack='', nosp=True), dict(lang='en', pack='*', seqs=True)]


class C06(core.Check):
    id = 'C06'
    level = 'exploration'
    technique = 'runtime monitor: table reference model vs real filter, exhaustive short strings + random'
    rule = ('exhaustive: every string of <= L atoms over the 20 atoms %s (L=3 quick, 4 thorough), each run under '
            'the default options and one rotating second option set; random: strings of 5-200 atoms over a wider '
            'alphabet; prose: strings without any LaTeX-active character (identity oracle, also multi-language '
            'mode); command line: `python -m yalafi --ienc <encoding> --nums f` on files in UTF-8, Latin-1, cp1252, '
            'ISO 8859-15: standard output = UTF-8 bytes of the model text, numbers = model map. Strings with a special sequence on an otherwise blank line are excluded (statement) and '
            'counted. non-trivial = not excluded and (contains a special sequence or is prose of >= 3 chars); '
            'distinct = distinct (string, options)' % ' '.join(repr(a) for a in ATOMS))
    level_text = ('Exploration with an exhaustively enumerated sub-space: every string of <= 3 (quick) / <= 4 (thorough) atoms '
                  'over the 20 atoms the statement mentions is run through the real filter and compared, text and map, '
                  'with a table reference model; beyond that bound random strings and pure prose. Right level: the claim '
                  'is a universal over strings whose interesting part (adjacency of sequences) is finite and enumerable.')
    level_note = ('Trusted: the 40-line table model and the blank-line exclusion predicate; bounded length for the '
                  'exhaustive part; longer strings only sampled.')
    design_ref = 'DESIGN.md section 4, C06'
    assumptions = ['table model written from the property statement (15 sequences, longest match)',
                   'the exclusion predicate implements "special sequence on an otherwise blank line"',
                   '[ directly after \\\\ is not generated (it is the optional argument of \\\\)']

    def exh_len(self, tier):
        return 3 if tier == 'quick' else 4

    def cases(self, tier, seed, shard, nshards):
        L = self.exh_len(tier)
        idx = 0
        for n in range(0, L + 1):
            for combo in itertools.product(ATOMS, repeat=n):
                idx += 1
                if idx % nshards != shard:
                    continue
                s = ''.join(combo)
                yield dict(fam='exh', s=s, opts=CONFIGS[0])
                yield dict(fam='exh2', s=s, opts=CONFIGS[1 + idx % (len(CONFIGS) - 1)])
        rnd = core.sub_rng('C06', seed, shard)
        nrand = (6000 if tier == 'quick' else 120000) // nshards
        for i in range(nrand):
            opts = dict(rnd.choice(CONFIGS))
            if rnd.random() < 0.5:
                n = rnd.randint(5, 60 if rnd.random() < .9 else 200)
                alpha = RAND
                if opts.get('lang') == 'de':
                    alpha = [a for a in RAND if a != '"']
                parts = []
                for _ in range(n):
                    a = rnd.choice(alpha)
                    if a == '[' and parts and parts[-1].strip() == '':
                        continue
                    parts.append(a)
                yield dict(fam='rand', s=''.join(parts), opts=opts)
            else:
                n = rnd.randint(1, 80)
                alpha = PROSE if opts.get('lang') != 'de' else [a for a in PROSE if a != '"']
                parts = []
                for _ in range(n):
                    parts.append(rnd.choice(alpha) if rnd.random() < .75 else rnd.choice(PROSE_WS))
                yield dict(fam='prose', s=''.join(parts), opts=opts, ml=rnd.random() < .25)
        # command line: input encodings (output is UTF-8 whatever the input encoding is)
        for i in range((160 if tier == 'quick' else 2000) // nshards):
            enc = rnd.choice(['default', 'utf-8', 'latin-1', 'cp1252', 'latin-1', 'cp1252', 'iso8859-15'])
            alpha = ['a', 'b', 'W', ' ', ' ', '\n', '.', ',', '~', '--', '---', '``', "''", '\\,', '\\%', '\\&', 'ä', 'ß', 'é', 'Ü', 'x']
            s = ''.join(rnd.choice(alpha) for _ in range(rnd.randint(1, 30)))
            yield dict(fam='cli', s=s, enc=enc)

    def judge_cli(self, case):
        """the command-line filter: the file is read in the given input encoding, the plain text is written to
        standard output in UTF-8 (README), the position numbers to the --nums file"""
        import subprocess
        s, enc = case['s'], case['enc']
        cnt = {'fam_cli': 1, 'cli_enc_' + enc: 1}
        if excluded(s):
            cnt['excluded_special_on_blank_line'] = 1
            return dict(ok=True, nt=False, key=None, cnt=cnt, obs=None)
        mt, mp = model(s)
        fn = os.path.join(self.tmp, 'c%d.tex' % os.getpid())
        nums = fn + '.nums'
        with open(fn, 'wb') as f:
            f.write(s.encode('utf-8' if enc == 'default' else enc))
        cmd = [env.PY, '-m', 'yalafi', '--pack', '', '--nums', nums] + (['--ienc', enc] if enc != 'default' else []) + [fn]
        pr = subprocess.run(cmd, capture_output=True, timeout=120, cwd=self.tmp, env=env.child_env())
        detail = dict(src=s, enc=enc, stderr=pr.stderr.decode('utf-8', 'replace')[-600:], stdout=repr(pr.stdout[:200]),
                      model_plain=mt)
        if pr.returncode != 0:
            return dict(ok=False, nt=True, key='cli:exit%d' % pr.returncode, cnt=cnt, obs=None, detail=detail)
        if pr.stdout != mt.encode('utf-8'):
            return dict(ok=False, nt=True, key='cli:output-bytes', cnt=cnt, obs=None, detail=detail)
        got = [int(x.rstrip('+')) for x in open(nums).read().split()]
        if got != mp:
            detail.update(nums=got, model_map=mp)
            return dict(ok=False, nt=True, key='cli:numbers', cnt=cnt, obs=None, detail=detail)
        if any(ord(ch) > 127 for ch in mt):
            cnt['cli_non_ascii_output'] = 1
        return dict(ok=True, nt=len(s) >= 3, key=None, cnt=cnt, obs=dict(src=tex.short(s, 60), enc=enc))

    def setup(self, tier):
        import tempfile
        self.tmp = tempfile.mkdtemp(prefix='yvm_c06_')

    def teardown(self):
        import shutil
        shutil.rmtree(self.tmp, ignore_errors=True)

    def judge(self, case):
        if case['fam'] == 'cli':
            return self.judge_cli(case)
        s = case['s']
        fam = case['fam']
        cnt = {'fam_' + fam: 1}
        if excluded(s):
            cnt['excluded_special_on_blank_line'] = 1
            return dict(ok=True, nt=False, key=None, cnt=cnt, obs=None)
        mt, mp = model(s)
        ml = bool(case.get('ml'))
        r, err = tex.run(s, ml=ml, **case['opts'])
        if ml:
            parts = [p for lang in r for p in r[lang]]
            if len(parts) > 1:
                return dict(ok=False, nt=True, key='prose-ml:split', cnt=cnt, obs=None,
                            detail={'parts': tex.short(parts)})
            t, p = (parts[0][0], parts[0][1]) if parts else ('', [])
        else:
            t, p = r
        has_special = any(u[1] in TAB for u in units(s))
        nt = has_special or (fam == 'prose' and len(s) >= 3)
        if has_special:
            cnt['with_special'] = 1
        if fam == 'prose':
            cnt['prose_identity_obligations'] = 1
        cnt['chars_judged'] = len(mt)
        if (t, list(p)) == (mt, mp) and not err:
            if fam.startswith('exh'):
                cnt['exh_judged'] = 1
            return dict(ok=True, nt=nt, key=None, cnt=cnt, obs={'plain': tex.short(t, 80), 'map': list(p)[:40]})
        # classify by the first unit that differs
        key = 'stderr-output'
        if (t, list(p)) != (mt, mp):
            us = [u for u in units(s) for _ in u[2]]
            i = next((i for i in range(min(len(t), len(mt)))
                      if t[i] != mt[i] or (i < len(p) and p[i] != mp[i])), min(len(t), len(mt)))
            what = 'text' if t != mt else 'map'
            unit = us[i][1] if i < len(us) else 'end'
            if unit not in TAB:
                unit = 'copy:' + ('space' if unit.isspace() else 'char')
            key = '%s@%s' % (what, unit)
        return dict(ok=False, nt=True, key=key, cnt=cnt, obs=None,
                    detail=dict(plain=t, map=list(p), model_plain=mt, model_map=mp, stderr=err))

    def quotas(self, tier):
        L = self.exh_len(tier)
        total = sum(len(ATOMS) ** n for n in range(L + 1))
        return {'fam_exh': total, 'fam_exh2': total, 'with_special': 1000, 'prose_identity_obligations': 500, 'fam_cli': 100,
                'cli_enc_latin-1': 20, 'cli_enc_cp1252': 20, 'cli_non_ascii_output': 50}

    def extra_evidence(self, counters, tier):
        L = self.exh_len(tier)
        total = sum(len(ATOMS) ** n for n in range(L + 1))
        return {'exhaustive': counters.get('fam_exh', 0) == total,
                'exhaustive_subspace': 'all %d strings of <= %d atoms (of which %d excluded by the statement\'s '
                                       'blank-line restriction, counting both option sets)'
                                       % (total, L, counters.get('excluded_special_on_blank_line', 0))}


CHECK = C06
