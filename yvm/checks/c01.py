"""C01 - every output character has exactly one source position, inside the source.

Oracle: len(plain) == len(map) and 1 <= p <= len(source) for every entry, for every
part in multi-language mode, and one number per output character at the CLI.
"""
import os
import random
import re
import shutil
import subprocess
import tempfile

from .. import core, env, probe, tex
from ..gen import docs as gdocs
from ..gen import soup as gsoup

SED = ('s/\\\\cref{ylab}/Figure~1 of the long replacement text/g\n'
       's/\\\\Cref{ylab}/Figure~1/g\n'
       's/\\\\cref{yl2}/Eq.\\\\ (1)   and   more/g\n'
       's/\\\\crefrange{ylab}{yl2}/Figures~1 to~2 of the long replacement/g\n'
       's/\\\\cref\\*{ylab}/\\\\verb|verbatim replacement text|/g\n')
GLS_LONG = ('\\gls@defglossaryentry{ylab}%\n{%\nname={ßname},%\ntext={ßtext ŉ ǰ ﬁ long glossary text},%\n'
            'plural={ßplural long},%\ndescription={ßdescription of the entry},%\nfirst={first}%\n}%\n')

TAILS = [
    # (name, preamble, construct) - constructs whose output may be longer than their source
    ('usermac-long-body', '\\newcommand{\\yl}{a long macro body with several words}\n', '\\yl'),
    ('usermac-ws-body', '\\newcommand{\\yl}{      \n\n}\n', '\\yl'),
    ('usermac-ws-body3', '\\newcommand{\\yl}{x      \n\n   \n}\n', '\\yl'),
    ('usermac-ws-body2', '\\newcommand{\\yl}[1]{#1,\n        yours   truly}\n', '\\yl{B}'),
    ('usermac-verb-body', '\\newcommand{\\yl}{\\verb|long verbatim text in body|}\n', '\\yl'),
    ('usermac-verbatim-body', '\\newcommand{\\yl}{\\begin{verbatim}long verbatim\ntext\\end{verbatim}}\n', '\\yl'),
    ('usermac-special-body', '\\newcommand{\\yl}[1]{#1\\]\\)}\n', '\\yl a'),
    ('usermac-special-body2', '\\def\\yl{\\(\\[}\n', '\\yl'),
    ('usermac-comment-arg', '\\newcommand{\\yt}[1]{"#1"}\n\\newcommand{\\yl}{\\yt{%\n   inner}}\n', '\\yl'),
    ('usermac-comment-arg2', '\\newcommand{\\yt}[2]{(#1)#2.}\n\\newcommand{\\yl}[1]{\\yt{#1 %c\n}{% c\n x}}\n', '\\yl{a}'),
    ('usermac-default', '\\newcommand{\\yl}[2][a long default text]{#1 #2}\n', '\\yl{x}'),
    ('usermac-default-only', '\\newcommand{\\yl}[1][a long default text   here]{#1}\n', '\\yl'),
    ('usermac-default-ws', '\\newcommand{\\yl}[1][Jane\n          Doe]{#1}\n', '\\yl'),
    ('usermac-default-verb', '\\newcommand{\\yl}[1][\\verb|verbatim default text|]{#1}\n', '\\yl'),
    ('usermac-default-ws2', '\\newcommand{\\yl}[2][a\n\n          b]{#1 #2}\n', '\\yl x'),
    ('def-long-body', '\\def\\yl#1{long body #1 of the def macro}\n', '\\yl x'),
    ('gls', '@GLS', '\\gls{ylab}'),
    ('Gls-upper', '@GLS', '\\Gls{ylab}'),
    ('GLS-upper', '@GLS', '\\GLS{ylab}'),
    ('glsdesc', '@GLS', '\\Glsdesc{ylab}'),
    ('GLSpl', '@GLS', '\\GLSpl{ylab}'),
    ('newglossaryentry-sz', '', '\\newglossaryentry{k}{name=n,description={ß}}'),
    ('longnewglossaryentry-sz', '', '\\longnewglossaryentry{k}{name=n}{ß}'),
    ('newacronym-sz', '', '\\newacronym{k}{s}{ŉ}'),
    ('longnewglossaryentry-sz-token', '', '\\longnewglossaryentry{k}{n}ß'),
    ('newacronym-sz-token', '', '\\newacronym{k}{s}ŉ'),
    ('glsdesc-token', '@GLS', '\\GLSdesc{ylab}'),
    ('cref', '@SED', '\\cref{ylab}'),
    ('cref2', '@SED', '\\cref{yl2}'),
    ('crefstar', '@SED', '\\cref*{ylab}'),
    ('crefrange', '@SED', '\\crefrange{ylab}{yl2}'),
    ('cref-undefined', '@SED', '\\cref{nolabel}'),
    ('cref-nosed', '\\usepackage{cleveref}\n', '\\cref{x}'),
    # the same label is referenced again inside a (long) file read afterwards
    ('cref-then-file', '@SED', '\\cref{ylab} and \\crefrange{ylab}{yl2} x \\LTinput{@CREFFILE}'),
    ('cref-file-then-cref', '@SED', '\\LTinput{@CREFFILE} \\cref{ylab}'),
    ('open-accent-brace', '', "Un caf\\'{"),
    ('open-accent-brace-foot', '', "A\\footnote{\\'{"),
    ('open-accent-brace2', '', 'na\\"{'),
    ('open-inline', '', '$x'),
    ('open-display', '', '\\[x'),
    ('open-equation', '', '\\begin{equation}x'),
    ('open-arg', '', '\\section{A'),
    ('open-opt', '', '\\cite[A'),
    ('open-footnote', '', 'A\\footnote{B'),
    ('verb-open', '', '\\verb|x'),
    ('verb-bare', '', '\\verb'),
    ('verbatim-open', '', '\\begin{verbatim}x'),
    ('skip-open', '', '%%% LT-SKIP-BEGIN'),
    ('accent-bad', '', "\\'1"),
    ('ltinput-missing', '', '\\LTinput{/nonexistent/f}'),
    ('def-bad', '', '\\def'),
    ('gls-missing', '', '\\gls{nolabel}'),
    ('proof', '', '\\begin{proof}\\end{proof}'),
    ('proof-opt', '', '\\begin{proof}[T]\\end{proof}'),
    ('theorem', '\\newtheorem{yt}{A very long theorem title}\n', '\\begin{yt}\\end{yt}'),
    ('theorem-opt', '\\newtheorem{yt}{A very long theorem title}\n', '\\begin{yt}[x]\\end{yt}'),
    ('enumerate', '', '\\begin{enumerate}\\item\\end{enumerate}'),
    ('item-bare', '', '\\item'),
    ('item-label-punct', '', 'A. \\item[x]'),
    ('heading', '', '\\section{A}'),
    ('cite', '', '\\cite{k}'),
    ('cite-opt', '', '\\cite[p]{k}'),
    ('footcite', '', '\\footcite{k}'),
    ('footnote', '', 'A\\footnote{B}'),
    ('caption', '', '\\caption{B}'),
    ('ref', '', '\\ref{k}'),
    ('eqref', '', '\\eqref{k}'),
    ('latex', '', '\\LaTeX'),
    ('inline', '', '$x$'),
    ('display', '', '\\[x.\\]'),
    ('display-op', '', '\\begin{align}a&=b\\\\&+c\\end{align}'),
    ('minipage', '', '\\begin{minipage}{x}A\\end{minipage}'),
    ('hfill', '', '\\hfill'),
    ('par', '', '\\par'),
    ('foreign', '', '\\foreignlanguage{german}{A}'),
    ('selectlanguage', '', '\\selectlanguage{german}'),
    ('otherlanguage', '', '\\begin{otherlanguage}{german}A\\end{otherlanguage}'),
    ('shorthand-de', '', '"a'),
    ('verbatim-env', '', '\\begin{verbatim}A\\end{verbatim}'),
    ('yvmremoved', '', '\\begin{yvmremoved}x\\end{yvmremoved}'),
    ('yvmequrepl', '', '\\begin{yvmequrepl}x.\\end{yvmequrepl}'),
    ('yvmswap', '', '\\yvmswap{x}'),
]
HEADS = ['', '@EMPTY', '@EMPTY A ', 'A ', 'A\n', 'A\n\\label{x}', 'A\n\\label{x}\n', 'A\n\n', '\\label{x}\n', 'A %c\n', '{', '\\zzfoo{', '$$a$$\n',
         'A\n  \\index{i}\n  ', 'é𝔸 ']
TRAIL = ['', ' ', '\n', '.', '}', ' x', '\n\n', ' \n ', '\n\\label{x}', '\n\\label{x}\n', '%', '%c\n', '\\zzunk']


class C01(core.Check):
    id = 'C01'
    level = 'exploration'
    technique = 'runtime monitor: length / range invariant on every returned (text, map) pair, API and CLI'
    rule = ('families: doc = generated documents x option matrix (lang, pack, dcls, definitions in --defs, extr, '
            'seqs, nosp, repl, multi-language); tail = %d constructs whose output can be longer than their source '
            '(macro bodies, glossary / cleveref text, upper-casing of sharp s etc., error marks, titles, labels) placed '
            'after %d kinds of head text and before %d kinds of 0-3 character tails; prefix = prefixes of documents; '
            'soup = token soups; cli = python -m yalafi --nums / --mula. Judged: len(text) == len(map), every entry in '
            '1..len(source) (for --unkn only the length). non-trivial = output non-empty and input contains markup; '
            'distinct = distinct (source, options)' % (len(TAILS), len(HEADS), len(TRAIL)))
    level_text = ('Exploration: the length/range invariant is checked on every result of tens of thousands of calls '
                  'over well-formed, malformed and end-of-source-pressure inputs and an option matrix; it is cheap '
                  'and needs no model, so reach comes from workload diversity aimed at the anchors (lengthened '
                  'tokens at the last source character, shifted paragraph tokens, error marks near the end).')
    level_note = 'The invariant is the statement itself; inputs are sampled. CLI: number lines vs decoded stdout characters.'
    design_ref = 'DESIGN.md section 4, C01'
    assumptions = ['source length is measured in Python characters (as tex2txt does); CLI input without \\r']

    def setup(self, tier):
        self.clock = probe.StepClock()
        self.clock.start()
        self.cap = probe.ParserCapture()
        self.tmp = tempfile.mkdtemp(prefix='yvm_c01_')
        self.gls = os.path.join(self.tmp, 'y.glsdefs')
        with open(self.gls, 'w', encoding='utf-8') as f:
            f.write(GLS_LONG)
        self.gls2 = os.path.join(self.tmp, 'y2.glsdefs')
        with open(self.gls2, 'w', encoding='utf-8') as f:
            f.write(gdocs.GLSDEFS)
        self.creffile = os.path.join(self.tmp, 'ycref.tex')
        with open(self.creffile, 'w', encoding='utf-8') as f:
            f.write('% padding line of a file that is longer than the document\n' * 30
                    + 'Text \\cref{ylab} \\crefrange{ylab}{yl2}\n\\newglossaryentry{k}{name=n,description={see \\cref{ylab}}}\n')
        self.sed = os.path.join(self.tmp, 'y.sed')
        with open(self.sed, 'w', encoding='utf-8') as f:
            f.write(SED)
        self.empty = os.path.join(self.tmp, 'empty.tex')
        open(self.empty, 'w').close()
        self.skiponly = os.path.join(self.tmp, 'skiponly.tex')
        with open(self.skiponly, 'w') as f:
            f.write('%%% LT-SKIP-BEGIN\n' + 'skipped text ' * 30 + '\n%%% LT-SKIP-END\n')

    def teardown(self):
        self.clock.stop()
        self.cap.restore()
        shutil.rmtree(self.tmp, ignore_errors=True)

    def cases(self, tier, seed, shard, nshards):
        rnd = core.sub_rng('C01', seed, shard)
        n = (18000 if tier == 'quick' else 600000) // nshards
        ncli = (96 if tier == 'quick' else 960) // nshards
        # tail family: systematic part (every tail construct x trailing text), sharded
        idx = 0
        for t in range(len(TAILS)):
            for tr in range(len(TRAIL)):
                for hd in range(len(HEADS)):
                    idx += 1
                    if idx % nshards != shard:
                        continue
                    yield dict(fam='tail', tail=t, head=hd, trail=tr, route=['doc', 'defs', 'ltinput'][idx % 3],
                               lang=rnd.choice(['en', 'de', 'ru']), ml=rnd.random() < .3, seqs=rnd.random() < .2)
        i = 0
        while i < n:
            for _ in range(60):
                yield dict(fam='tail', tail=rnd.randrange(len(TAILS)), head=rnd.randrange(len(HEADS)),
                           trail=rnd.randrange(len(TRAIL)), lang=rnd.choice(['en', 'de', 'ru']),
                           ml=rnd.random() < .3, seqs=rnd.random() < .2, tail2=rnd.randrange(len(TAILS)),
                           route=rnd.choice(['doc', 'doc', 'defs', 'ltinput']))
            for _ in range(40):
                yield dict(fam='soup', src=gsoup.soup(rnd), opts=gsoup.rand_opts(rnd), ml=rnd.random() < .3)
            for _ in range(80):
                o = gsoup.rand_opts(rnd)
                pack = rnd.choice(gdocs.PACK_CHOICES)
                yield dict(fam='doc', docseed=rnd.getrandbits(48), size=rnd.randint(1, 8), pack=pack,
                           lang=rnd.choice(['en', 'de', 'ru']), opts={k: v for k, v in o.items()
                                                                      if k in ('dcls', 'extr', 'seqs', 'nosp', 'repl', 'unkn')},
                           route=rnd.choice(['doc', 'defs']), ml=rnd.random() < .3, gls=rnd.random() < .3,
                           endp=rnd.choice([0, 1, 2, 3]))
            ds = rnd.getrandbits(48)
            sz = rnd.randint(1, 3)
            d = gdocs.random_document(random.Random(ds), size=sz, max_depth=3, theorems=False)
            ks = list(range(d.body_start, len(d.src)))
            rnd.shuffle(ks)
            for k in ks[:40]:
                yield dict(fam='prefix', docseed=ds, size=sz, k=k, ml=rnd.random() < .2)
            i += 220
        for _ in range(ncli):
            d = gdocs.random_document(rnd, size=rnd.randint(1, 5), max_depth=3)
            src = d.src if rnd.random() < .6 else gsoup.soup(rnd)
            yield dict(fam='cli', src=src.replace('\r', ' ').replace('\x00', ' '), mula=rnd.random() < .4,
                       lang=rnd.choice(['en', 'de', 'ru']), file=rnd.random() < .5)

    # ------------------------------------------------------------------
    def materialise(self, case):
        fam = case['fam']
        if fam == 'tail':
            name, pre, cons = TAILS[case['tail']]
            pack = '*,.yvm.ext'
            if pre == '@GLS':
                pre = '\\LTinput{%s}\n' % self.gls
            elif pre == '@SED':
                pre = '\\usepackage[poorman]{cleveref}\\YYCleverefInput{%s}\n' % self.sed
                pack = '*,cleveref'
            if 'cleveref' in pre:
                pack = '*,cleveref'
            mid = ''
            if 'tail2' in case:
                n2, pre2, cons2 = TAILS[case['tail2']]
                if not pre2.startswith('@') and 'cleveref' not in pre2 and '\\yl' not in pre2 and '{yt}' not in pre2:
                    mid = cons2 + ' '
            opts = dict(lang=case['lang'], pack=pack, seqs=case.get('seqs', False))
            route = case.get('route', 'doc')
            if route != 'doc' and pre and 'usepackage' not in pre:
                pad = '% padding line of the definitions text, which is longer than the document\n' * 6
                if route == 'defs':
                    opts['defs'] = pad + pre
                    pre = ''
                else:
                    fn = os.path.join(self.tmp, 'tail%d.tex' % case['tail'])
                    with open(fn, 'w', encoding='utf-8') as f:
                        f.write(pad + pre)
                    pre = '\\LTinput{%s}' % fn
            head = HEADS[case['head']].replace('@EMPTY', '\\LTinput{%s}' % (self.empty if case['trail'] % 2 else self.skiponly))
            src = pre + head + mid + cons.replace('@CREFFILE', self.creffile) + TRAIL[case['trail']]
            return src, opts, case['ml']
        if fam == 'soup':
            return case['src'], dict(case['opts']), case['ml']
        if fam == 'doc':
            d = gdocs.random_document(random.Random(case['docseed']), size=case['size'], lang=case['lang'],
                                      pack=case['pack'], glossary_file=self.gls2 if case['gls'] else None,
                                      end_pressure=case['endp'])
            opts = dict(case['opts'])
            opts.update(lang=case['lang'], pack=case['pack'])
            src = d.src
            if case['route'] == 'defs':
                src = d.src[d.body_start:]
                opts['defs'] = d.src[:d.body_start]
            return src, opts, case['ml']
        if fam == 'prefix':
            d = gdocs.random_document(random.Random(case['docseed']), size=case['size'], max_depth=3, theorems=False)
            return d.src[:case['k']], dict(lang='en', pack='*,.yvm.ext'), case['ml']
        raise ValueError(fam)

    def judge(self, case):
        fam = case['fam']
        cnt = {'fam_' + fam: 1}
        if fam == 'cli':
            return self.judge_cli(case, cnt)
        src, opts, ml = self.materialise(case)
        from . import c07
        kind, r, err, steps, tb, limit = c07.guarded_run(self.clock, self.cap, src, opts, ml)
        if kind is not None:
            why = c07.exclusion(self.cap.last, src + (opts.get('defs') or ''), err, kind)
            if why:
                cnt['excluded:' + why] = 1
                return dict(ok=True, nt=False, key=None, cnt=cnt, obs=None)
            where = ('@' + core.exc_origin(tb)[1]) if tb is not None else ''
            return dict(ok=False, nt=True, key='no-result:%s%s' % (kind, where), cnt=cnt, obs=None,
                        detail=dict(src=src, opts=opts, ml=ml, kind=kind, steps=steps, stderr=err[-1000:]))
        parts = [('', r[0], r[1])] if not ml else [(lg, p[0], p[1]) for lg in r for p in r[lg]]
        if fam == 'tail':
            cnt['tail_' + TAILS[case['tail']][0]] = 1
        if ml:
            cnt['ml_runs'] = 1
            cnt['ml_parts'] = len(parts)
        if tex.MARK in ''.join(p[1] for p in parts):
            cnt['with_error_mark'] = 1
        n = len(src)
        for lg, t, p in parts:
            cnt['chars_checked'] = cnt.get('chars_checked', 0) + len(t)
            if len(t) != len(p):
                return dict(ok=False, nt=True, key='length' + (':ml' if ml else ''), cnt=cnt, obs=None,
                            detail=dict(src=src, opts=opts, ml=ml, text=t, map=list(p), stderr=err))
            if opts.get('unkn') and not ml:
                continue
            bad = [(i, q) for i, q in enumerate(p) if not (isinstance(q, int) and 1 <= q <= n)]
            if bad:
                i, q = bad[0]
                what = 'mark' if tex.MARK.find(t[i]) >= 0 and tex.MARK in t[max(0, i - 13):i + 13] else (
                    'space' if t[i].isspace() else 'text')
                key = 'range:%s:%s' % (fam if fam != 'tail' else 'tail:' + TAILS[case['tail']][0], what)
                if fam in ('doc', 'soup', 'prefix'):
                    key = 'range:%s:%s:%s' % (fam, what, 'high' if q > n else 'low')
                return dict(ok=False, nt=True, key=key, cnt=cnt, obs=None,
                            detail=dict(src=src, opts=opts, ml=ml, lang=lg, text=t, map=list(p), len_source=n,
                                        first_bad=dict(index=i, pos=q, char=t[i]), n_bad=len(bad), stderr=err))
        nt = any(t for _, t, _ in parts) and bool(re.search(r'[\\{}$%#&~]', src))
        return dict(ok=True, nt=nt, key=None, cnt=cnt,
                    obs=dict(src=tex.short(src, 200), opts={k: tex.short(v, 40) for k, v in opts.items()}, ml=ml,
                             parts=[(lg, tex.short(t, 60), list(p)[:12]) for lg, t, p in parts][:3]))

    def judge_cli(self, case, cnt):
        src = case['src']
        nums = os.path.join(self.tmp, 'nums')
        mula = os.path.join(self.tmp, 'mula')
        for f in os.listdir(self.tmp):
            if f.startswith(('nums', 'mula')):
                os.unlink(os.path.join(self.tmp, f))
        cmd = [env.PY, '-m', 'yalafi', '--nums', nums, '--lang', case['lang'], '--pack', '*']
        if case['mula']:
            cmd += ['--mula', mula]
        inp = None
        if case['file']:
            fn = os.path.join(self.tmp, 'in.tex')
            with open(fn, 'w', encoding='utf-8', newline='') as f:
                f.write(src)
            cmd.append(fn)
        else:
            inp = src.encode('utf-8', 'replace')
        pr = subprocess.run(cmd, input=inp, capture_output=True, timeout=120, cwd=self.tmp, env=env.child_env())
        err = pr.stderr.decode('utf-8', 'replace')
        if pr.returncode != 0:
            return dict(ok=False, nt=True, key='cli:exit%d' % pr.returncode, cnt=cnt, obs=None,
                        detail=dict(src=src, cmd=cmd, stderr=err[-1500:]))
        n = len(src.encode('utf-8', 'replace').decode('utf-8'))
        pairs = []
        if case['mula']:
            cnt['cli_mula'] = 1
            for f in sorted(os.listdir(self.tmp)):
                if f.startswith('mula.'):
                    t = open(os.path.join(self.tmp, f), encoding='utf-8', newline='').read()
                    nf = os.path.join(self.tmp, 'nums' + f[4:])
                    if not os.path.exists(nf):
                        return dict(ok=False, nt=True, key='cli:mula-nums-missing', cnt=cnt, obs=None,
                                    detail=dict(src=src, file=f))
                    pairs.append((t, open(nf).read().split('\n')))
        else:
            t = pr.stdout.decode('utf-8')
            pairs.append((t, open(nums).read().split('\n')))
        for t, lines in pairs:
            if lines and lines[-1] == '':
                lines.pop()
            if len(lines) != len(t):
                return dict(ok=False, nt=True, key='cli:count', cnt=cnt, obs=None,
                            detail=dict(src=src, text=t, n_numbers=len(lines), n_chars=len(t)))
            for s in lines:
                if not s.rstrip('+').isdecimal() or not 1 <= int(s.rstrip('+')) <= n:
                    return dict(ok=False, nt=True, key='cli:range', cnt=cnt, obs=None,
                                detail=dict(src=src, text=t, number=s, len_source=n))
        cnt['cli_ok'] = 1
        return dict(ok=True, nt=bool(pairs and pairs[0][0]), key=None, cnt=cnt,
                    obs=dict(cmd=' '.join(cmd[2:]), chars=sum(len(t) for t, _ in pairs)))

    def quotas(self, tier):
        q = {'fam_doc': 3000, 'fam_tail': 10000, 'fam_soup': 1500, 'fam_prefix': 1000, 'cli_ok': 50,
             'ml_runs': 2000, 'with_error_mark': 1000}
        q.update({'tail_' + t[0]: 10 for t in TAILS})
        return q


CHECK = C01
