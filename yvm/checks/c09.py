"""C09 - user macro definitions expand by TeX substitution, in order, from any source.

Oracle: (1) reference expander (late binding, #k substitution, optional default, nested
uses, use before definition = unknown macro, redefinition affects later uses only),
compared as word streams with position constraints (argument text: exact offset, body
text: inside the span of the outermost call); (2) route relation: definitions in the
document, in --defs, in an \\LTinput file give the same text with maps shifted by a constant.
"""
import os
import random
import re
import shutil
import tempfile

from .. import core, tex

LETTERS = 'abcdefghijklmnop'


class Case:
    pass


def gen_case(rnd, inline=False):
    """-> Case with defs source D (list of definition strings), body source B, expected stream"""
    wid = [0]

    def W(prefix):
        wid[0] += 1
        return '%s%dz' % (prefix, wid[0])

    names = []
    table = {}          # name -> (nparams, hasopt, default word, body)
    defs_src = []       # (string, table snapshot after it)
    ndefs = rnd.randint(1, 6)
    for i in range(ndefs):
        redefine = bool(names) and rnd.random() < .25
        name = rnd.choice(names) if redefine else 'ym' + LETTERS[len(names)]
        n = rnd.randint(0, 3) if rnd.random() < .85 else rnd.randint(4, 9)
        hasopt = n > 0 and rnd.random() < .3
        if redefine:
            n, hasopt = table[name][0], table[name][1]
        myidx = names.index(name) if name in names else len(names)
        body = []
        for _ in range(rnd.randint(1, 5)):
            r = rnd.random()
            if r < .4:
                body.append(('w', W('b')))
            elif r < .8 and n > 0:
                body.append(('a', rnd.randint(1, n)))
            elif names[:myidx] and r < .95:
                c = rnd.choice(names[:myidx])
                cn, co = table[c][0], table[c][1]
                cargs = []
                for _k in range(cn - (1 if co else 0)):
                    if n > 0 and rnd.random() < .4:
                        cargs.append(('a', rnd.randint(1, n)))       # pass own parameter on
                    else:
                        cargs.append(('w', W('b')))
                body.append(('c', c, cargs))
            else:
                body.append(('w', W('b')))
        cnt = {}
        for x in body:
            for y in ([x] if x[0] != 'c' else x[2]):
                if y[0] == 'a':
                    cnt[y[1]] = cnt.get(y[1], 0) + 1
        if any(v > 2 for v in cnt.values()):
            body = [x for x in body if x[0] == 'w'] + ([('a', 1)] if n else [])
        default = W('d') if hasopt else None
        kind = 'def' if (not hasopt and rnd.random() < .3) else ('renew' if redefine else 'new')

        def bs(b):
            out = []
            for x in b:
                if x[0] == 'w':
                    out.append(x[1])
                elif x[0] == 'a':
                    out.append('#%d' % x[1])
                else:
                    out.append('\\%s' % x[1] + ''.join('{%s}' % (a[1] if a[0] == 'w' else '#%d' % a[1])
                                                       for a in x[2]))
            sep = rnd.choice([' ', ' ', '\n', '  '])
            return sep.join(out)
        if kind == 'def':
            s = '\\def\\%s%s{%s}' % (name, ''.join('#%d' % k for k in range(1, n + 1)), bs(body))
        else:
            star = '*' if rnd.random() < .1 else ''
            s = ('\\%scommand%s{\\%s}' % (kind, star, name) + ('[%d]' % n if n else '')
                 + ('[%s]' % default if hasopt else '') + '{%s}' % bs(body))
        table = dict(table)
        table[name] = (n, hasopt, default, body)
        if name not in names:
            names.append(name)
        defs_src.append((s, table))
    final = table

    def expand(name, args, tab):
        n, hasopt, default, body = tab[name]
        out = []
        for x in body:
            if x[0] == 'w':
                out.append((x[1], None))
            elif x[0] == 'a':
                out += args[x[1] - 1]
            else:
                cn, co, cd, _ = tab[x[1]]
                cargs = ([[(cd, None)]] if co else [])
                for a in x[2]:
                    cargs.append([(a[1], None)] if a[0] == 'w' else list(args[a[1] - 1]))
                out += expand(x[1], cargs, tab)
        return out

    # document body: uses (with inline definitions interleaved if requested)
    parts = []          # source pieces
    exp = []            # (word, kind, a, b): kind 'exact' offset a | 'span' a..b | 'text'
    pos = [0]

    def emit(s):
        parts.append(s)
        pos[0] += len(s)

    def word(prefix):
        w = W(prefix)
        st = pos[0]
        emit(w)
        return w, st

    pending = list(defs_src) if inline else []
    cur = {} if inline else final
    nuses = rnd.randint(1, 7)
    c = Case()
    c.n_unknown_uses = 0
    c.n_calls = 0
    c.n_default = 0
    c.n_nested = 0
    c.n_foot = 0
    fexp = []
    for _ in range(nuses):
        if pending and rnd.random() < .6:
            s, tab = pending.pop(0)
            emit(s + rnd.choice(['\n', ' ', '%\n']))
            cur = tab
        w, st = word('u')
        exp.append((w, 'exact', st, st))
        emit(' ')
        # a use inside a footnote / caption: the detached text is expanded where it stands (macro table of that
        # moment) and reported behind the main text
        infoot = rnd.random() < .2
        if infoot:
            emit(rnd.choice(['\\footnote{', '\\footnote{', '\\caption{']))
            main_exp, exp = exp, []
            w, st = word('f')
            exp.append((w, 'exact', st, st))
            emit(' ')
            c.n_foot += 1
        name = rnd.choice(names)
        known = name in cur
        n, hasopt, default, b = (cur if known else final)[name]
        call_st = pos[0]
        emit('\\' + name)
        args = []
        if hasopt:
            if rnd.random() < .5:
                emit('[')
                a, ast = word('o')
                emit(']')
                if known:
                    args.append([(a, ast)])
                else:
                    # unknown macro: the brackets are ordinary text
                    args.append([('[', ast - 1), (a, ast), (']', ast + len(a))])
            else:
                args.append([(default, None)])
                c.n_default += 1
        for k in range(n - (1 if hasopt else 0)):
            r = rnd.random()
            if r < .15 and known:
                # single-token argument: one character
                emit(' ')
                ch = rnd.choice('XYZ')
                st1 = pos[0]
                emit(ch)
                args.append([(ch, st1)])
            elif r < .3 and known:
                # argument containing a call of a parameterless earlier macro? keep simple: two words
                emit('{')
                a1, s1 = word('a')
                emit(' ')
                a2, s2 = word('a')
                emit('}')
                args.append([(a1, s1), (a2, s2)])
            else:
                emit(rnd.choice(['', '', ' ', '\n']) + '{')
                a, ast = word('a')
                emit('}')
                args.append([(a, ast)])
        call_en = pos[0]
        if known:
            c.n_calls += 1
            out = expand(name, args, cur)
            if any(x[0] == 'c' for x in b):
                c.n_nested += 1
            for wtxt, off in out:
                if off is None:
                    exp.append((wtxt, 'span', call_st + 1, call_en))
                else:
                    exp.append((wtxt, 'exact', off, off))
        else:
            # unknown at this point: name vanishes, braced / bracketed material stays as text
            c.n_unknown_uses += 1
            for a in args:
                for wtxt, off in a:
                    if off is not None:
                        exp.append((wtxt, 'exact', off, off))
            if hasopt and args and args[0][0][1] is not None:
                pass
        if infoot:
            emit('}')
            fexp += exp
            exp = main_exp
        emit(rnd.choice([' ', '\n', '{} ']))
    w, st = word('u')
    exp.append((w, 'exact', st, st))
    exp += fexp
    # (definition lines may be indented: a line holding nothing but definitions leaves nothing, not even blanks)
    indent = rnd.choice(['', '', '  ', '\t', '    '])
    c.D = ''.join((indent if i else '') + s + '\n' for i, (s, _) in enumerate(defs_src))
    c.B = ''.join(parts)
    c.exp = exp
    c.inline = inline
    return c


ARG_SHAPES = ['W', 'W W', '\\ypm', 'W \\ypm', 'W\\ypm', '\\ypm{}', '\\LaTeX', 'W \\LaTeX', '\\ypn', 'W \\zzunk', '\\ypm W',
              '\\textbf{W}', 'W \\S', '', ' W ', 'W\\ ']


def gen_subst(rnd):
    """substitution relation: a call and its hand-substituted body give the same text (white space included).
    -> (definitions, document with the call, document with the body written out, description)"""
    wid = [0]

    def W(p='s'):
        wid[0] += 1
        return '%s%dz' % (p, wid[0])

    def protect(a):
        # token-level substitution = textual substitution, except that a control word at the end of the
        # argument must not swallow the blank that follows #k in the body
        return a + '{}' if re.search(r'\\[a-zA-Z]+$', a) else a
    n = rnd.randint(1, 3)
    elems = []
    for j in range(rnd.randint(2, 6)):
        elems.append('#%d' % rnd.randint(1, n) if rnd.random() < .5 else W('b'))
    if not any(e.startswith('#') for e in elems):
        elems[rnd.randrange(len(elems))] = '#1'
    body = ''
    for j, e in enumerate(elems):
        body += e
        if j < len(elems) - 1:
            nxt = elems[j + 1]
            if e.startswith('#') or nxt.startswith('#'):
                body += rnd.choice([' ', ' ', '\n', '', '  ', ', '])
            else:
                body += ' '
    kind = rnd.choice(['new', 'new', 'def', 'opt', 'opt'])
    dflt = None
    if kind == 'def':
        d = '\\def\\yby%s{%s}' % (''.join('#%d' % k for k in range(1, n + 1)), body)
    elif kind == 'opt':
        # first parameter optional; brackets inside the default / the actual option are protected by braces
        dflt = rnd.choice(['W', 'W W', '{]W,W]}', '{W]}W', '', '{[}W'])
        while 'W' in dflt:
            dflt = dflt.replace('W', W('d'), 1)
        d = '\\newcommand{\\yby}[%d][%s]{%s}' % (n, dflt, body)
    else:
        d = '\\newcommand{\\yby}[%d]{%s}' % (n, body)
    defs = '\\newcommand{\\ypm}{ypmz}\n\\newcommand{\\ypn}{}\n' + d + '\n'
    args = []
    for k in range(n):
        a = rnd.choice(ARG_SHAPES)
        while 'W' in a:
            a = a.replace('W', W('a'), 1)
        args.append(a)
    call = '\\yby'
    if kind == 'opt':
        if rnd.random() < .6:
            o = rnd.choice(['W', '{W]W}', 'W{W]}', '{[}W', '{W[W]W}', 'W W', '{]}', '', ''])      # ('' = explicitly empty option)
            while 'W' in o:
                o = o.replace('W', W('o'), 1)
            call += '[' + o + ']'
            args[0] = o
        else:
            args[0] = dflt
    for a in (args[1:] if kind == 'opt' else args):
        if re.fullmatch(r'\\[a-zA-Z]+', a) and rnd.random() < .5:
            call += rnd.choice(['', ' ']) + a           # single-token argument without braces
        else:
            call += rnd.choice(['', '', ' ']) + '{' + a + '}'
    subst = body
    for k in range(n, 0, -1):
        subst = subst.replace('#%d' % k, protect(args[k - 1]))
    tail = rnd.choice([' ', '\n', '{} ', ', '])
    where = rnd.choice(['direct', 'direct', 'inner', 'arg', 'definer'])
    if where == 'definer':
        # a macro that defines a macro: the name and the text arrive through parameters
        defs += '\\newcommand{\\ydefm}[2]{\\newcommand{#1}{#2 ydmz}}\n'
        u1, u2, u3 = W('u'), W('u'), W('u')
        txt = args[0] if args and args[0].strip() else W('a')
        use = '\\ynew{} '
        doc = u1 + ' \\ydefm{\\ynew}{' + txt + '} ' + u2 + ' ' + use + u3 + ' ' + use + call + tail + W('u')
        ref = (u1 + ' \\newcommand{\\ynew}{' + protect(txt) + ' ydmz} ' + u2 + ' ' + use + u3 + ' ' + use
               + doc[doc.rindex(call):])
        return defs, doc, ref, dict(where=where, kind=kind, args=args, body=body, opt=False, bare_before_brace=False)
    bare = call == '\\yby'       # no argument given at all: the call is a control word
    if not bare and re.search(r'\\[a-zA-Z]+$', call):
        tail = rnd.choice(['{} ', ', '])    # (white space behind an unbraced control-word argument is not judged)
    if where == 'direct':
        u1, u2 = W('u'), W('u')
        doc = u1 + ' ' + call + tail + u2
        if bare and tail[0].isspace():
            # white space after a control word is not a token: the expansion is followed directly by the next word
            ref = u1 + ' ' + protect(subst) + tail.lstrip() + u2
        else:
            ref = u1 + ' ' + (protect(subst) if tail[0].isspace() else subst) + tail + u2
    elif where == 'inner':
        # the call is written inside the body of another macro
        x1, x2 = W('x'), W('x')
        defs += '\\newcommand{\\youter}{%s %s %s}\n' % (x1, call, x2)
        u1, u2 = W('u'), W('u')
        doc = u1 + ' \\youter{} ' + u2
        ref = u1 + ' ' + x1 + ' ' + (protect(subst) if bare else subst + ' ') + x2 + '{} ' + u2
    else:
        # the call is the argument of a declared / unknown macro
        m = rnd.choice(['\\textbf', '\\zzmac', '\\footnote', '\\textcolor{red}'])
        u1, u2 = W('u'), W('u')
        doc = u1 + ' ' + m + '{' + call + '} ' + u2
        ref = u1 + ' ' + m + '{' + subst + '} ' + u2
    return defs, doc, ref, dict(where=where, kind=kind, args=args, body=body, opt=kind == 'opt' and '[' in call,
                                bare_before_brace=bare and kind == 'opt' and where == 'arg')


class C09(core.Check):
    id = 'C09'
    level = 'exploration'
    technique = 'runtime monitor: TeX-substitution reference expander + cross-run relation between three definition routes'
    rule = ('definition sets of 1-6 macros (\\newcommand, \\renewcommand, \\def; 0-9 parameters, optional default, '
            'parameters unused / used once / twice, parameters passed on to nested calls of earlier macros, '
            'redefinitions) and documents with 1-7 uses (braced, bracketed, single-token and two-word arguments, '
            'layout variants). routes: D+B in one text, B with defs=D, \\LTinput{file(D)}+B: same text, maps shifted '
            'by a constant, D alone leaves no text. inline: definitions interleaved with uses (use before definition '
            '= unknown macro, redefinition affects later uses only). substitution relation: a call (direct, inside the body '
            'of another macro, inside an argument; arguments ending with control words, empty, single-token) and the '
            'body written out by hand with #k replaced give the same text, white space included. non-trivial = at least one call of a defined '
            'macro with >= 1 parameter or nested call; distinct = distinct generator seed')
    level_text = ('Exploration: thousands of random definition sets and documents per run, each judged against a '
                  'reference expander (word stream and position constraints) and by the equality relation between '
                  'three ways of supplying the definitions, a cross-run property no single expected-output test has.')
    level_note = 'Trusted: the 60-line reference expander; \\def only with undelimited parameters; acyclic definitions.'
    design_ref = 'DESIGN.md section 4, C09'
    assumptions = ['redefinitions keep parameter count and optional-argument shape; call graph acyclic over the final table',
                   'one-character single-token arguments are judged by text only (not unique)']

    def setup(self, tier):
        self.tmp = tempfile.mkdtemp(prefix='yvm_c09_')

    def teardown(self):
        shutil.rmtree(self.tmp, ignore_errors=True)

    def cases(self, tier, seed, shard, nshards):
        rnd = core.sub_rng('C09', seed, shard)
        n = (5000 if tier == 'quick' else 100000) // nshards
        for i in range(n):
            yield dict(s=rnd.getrandbits(48), inline=(i % 4 == 3), lang=rnd.choice(['en', 'de']),
                       pack=rnd.choice(['*', '']))
        for i in range((4000 if tier == 'quick' else 80000) // nshards):
            yield dict(fam='subst', s=rnd.getrandbits(48), lang=rnd.choice(['en', 'de']), pack=rnd.choice(['*', '']),
                       route=rnd.choice(['doc', 'defs']))

    def check_stream(self, c, t, p, shift):
        """words of the output vs expected; -> problem or None"""
        toks = [(m.group(0), m.start()) for m in re.finditer(r'\S+', t)]
        # single characters may glue to neighbours: compare on the joined stream first
        if ''.join(x for x, _ in toks) != ''.join(e[0] for e in c.exp):
            return ('expansion-text', dict(got=' '.join(x for x, _ in toks), want=' '.join(e[0] for e in c.exp)))
        # position constraints per expected word (locate by running index in the joined stream)
        joined = [(ch, p[i]) for i, ch in enumerate(t) if not ch.isspace()]
        k = 0
        for w, kind, a, b in c.exp:
            seg = joined[k:k + len(w)]
            k += len(w)
            if kind == 'exact':
                for j, (ch, q) in enumerate(seg):
                    if q - shift != a + j + 1:
                        return ('argument-position', dict(word=w, got=q - shift, want=a + j + 1))
            elif kind == 'span':
                for ch, q in seg:
                    if not a <= q - shift <= b:
                        return ('body-position', dict(word=w, got=q - shift, span=[a, b]))
        return None

    def judge_subst(self, case):
        defs, doc, ref, what = gen_subst(random.Random(case['s']))
        opts = dict(lang=case['lang'], pack=case['pack'])
        if case['route'] == 'doc':
            (t1, p1), e1 = tex.run(defs + doc, **opts)
            (t2, p2), e2 = tex.run(defs + ref, **opts)
        else:
            (t1, p1), e1 = tex.run(doc, defs=defs, **opts)
            (t2, p2), e2 = tex.run(ref, defs=defs, **opts)
        cnt = {'subst_cases': 1, 'subst_' + what['where']: 1}
        if what['kind'] == 'opt':
            cnt['subst_optional_' + ('given' if what['opt'] else 'default')] = 1
        if any(re.search(r'\\[a-zA-Z]+$', a) for a in what['args']):
            cnt['subst_arg_ends_with_control_word'] = 1

        def norm(t):
            return re.sub(r'\s+', ' ', t).strip()
        if e1 or e2 or norm(t1) != norm(t2):
            key = 'substitution:' + ('stderr' if e1 or e2 else what['where'])
            if what.get('bare_before_brace') and not (e1 or e2) and norm(t1).replace(' ', '') == norm(t2).replace(' ', ''):
                # D24 (recorded for C05): the look-ahead for the absent optional argument eats the blank behind '}'
                key = 'substitution:absent-optional-before-closing-brace'
            return dict(ok=False, nt=True, key=key, cnt=cnt,
                        obs=None, detail=dict(defs=defs, call_document=doc, substituted_document=ref, call_text=t1,
                                              substituted_text=t2, stderr=e1 + e2, what=what))
        return dict(ok=True, nt=True, key=None, cnt=cnt, obs=dict(doc=tex.short(doc, 120), text=tex.short(norm(t1), 100)))

    def judge(self, case):
        if case.get('fam') == 'subst':
            return self.judge_subst(case)
        c = gen_case(random.Random(case['s']), inline=case['inline'])
        opts = dict(lang=case['lang'], pack=case['pack'])
        cnt = {}
        if case['s'] % 5 == 3:
            # the special macros and comments switched off: no influence on definitions, from whatever source
            opts['nosp'] = True
        cnt = {'inline' if c.inline else 'routes': 1, 'calls': c.n_calls, 'unknown_uses': c.n_unknown_uses,
               'default_used': c.n_default, 'nested_calls': c.n_nested, 'uses_in_detached_text': c.n_foot}
        if opts.get('nosp'):
            cnt['with_no_specials'] = 1
        nt = c.n_calls > 0
        if c.inline:
            (t, p), e = tex.run(c.B, **opts)
            if e:
                return dict(ok=False, nt=True, key='inline:stderr', cnt=cnt, obs=None, detail=dict(src=c.B, stderr=e))
            pr = self.check_stream(c, t, p, 0)
            if pr:
                return dict(ok=False, nt=True, key='inline:' + pr[0], cnt=cnt, obs=None,
                            detail=dict(src=c.B, plain=t, problem=pr[1]))
            return dict(ok=True, nt=nt, key=None, cnt=cnt, obs=dict(src=tex.short(c.B, 200), plain=tex.short(t, 120)))
        D, B = c.D, c.B
        if not opts.get('nosp') and case['s'] % 3 == 1:
            # a skipped region with other definitions of the same names: skipped on every route
            names = sorted(set(re.findall(r'\\ym[a-z]', D)))
            D += '%%% LT-SKIP-BEGIN\n' + ''.join('\\def%s{hskip%dQ}\n' % (nm, k) for k, nm in enumerate(names)) \
                 + '\\newcommand{\\yskipped}{x}\n%%% LT-SKIP-END\n'
            cnt['definitions_with_skipped_region'] = 1
        fn = os.path.join(self.tmp, 'defs.tex')
        with open(fn, 'w') as f:
            f.write(D)
        pre = '\\LTinput{%s}\n' % fn
        (t1, p1), e1 = tex.run(D + B, **opts)
        (t2, p2), e2 = tex.run(B, defs=D, **opts)
        (t3, p3), e3 = tex.run(pre + B, **opts)
        (t0, p0), e0 = tex.run(D, **opts)
        detail = dict(D=D, B=B, doc=t1, defs=t2, ltinput=t3)
        if e1 or e2 or e3 or e0:
            detail['stderr'] = e1 or e2 or e3 or e0
            return dict(ok=False, nt=True, key='stderr', cnt=cnt, obs=None, detail=detail)
        if t0.strip():
            return dict(ok=False, nt=True, key='definitions-leave-text', cnt=cnt, obs=None, detail=dict(D=D, plain=t0))
        pr = self.check_stream(c, t1, p1, len(D))
        if pr:
            detail['problem'] = pr[1]
            return dict(ok=False, nt=True, key='doc-route:' + pr[0], cnt=cnt, obs=None, detail=detail)
        if not (t1.lstrip() == t2.lstrip() == t3.lstrip()):
            return dict(ok=False, nt=True, key='routes-differ:text', cnt=cnt, obs=None, detail=detail)
        k1, k2, k3 = (len(x) - len(x.lstrip()) for x in (t1, t2, t3))
        a = [x - len(D) for x in p1[k1:]]
        b = list(p2[k2:])
        cc = [x - len(pre) for x in p3[k3:]]
        if not (a == b == cc):
            detail.update(map_doc=a, map_defs=b, map_ltinput=cc)
            return dict(ok=False, nt=True, key='routes-differ:map:' + ('defs' if a != b else 'ltinput'), cnt=cnt,
                        obs=None, detail=detail)
        if case['s'] % 4 == 1:
            # the definitions in the middle of the document, behind a sentence with a footnote: nothing collected
            # before may be lost, whatever the route
            cnt['definitions_mid_document'] = 1
            prefix = 'u0az \\footnote{u0bz u0cz} u0dz\n'
            runs = [tex.run(prefix + D + B, **opts), tex.run(prefix + B, defs=D, **opts), tex.run(prefix + pre + B, **opts)]
            seqs = []
            for ((tt, pp), ee), sh in zip(runs, (len(D), 0, len(pre))):
                seqs.append([(ch, q if q <= len(prefix) else q - sh) for ch, q in zip(tt, pp) if not ch.isspace()])
            texts = [r[0][0] for r in runs]
            if any(r[1] for r in runs) or not (seqs[0] == seqs[1] == seqs[2]) or 'u0bz' not in runs[2][0][0] \
                    or not (texts[0] == texts[1] == texts[2]):
                detail.update(mid_document=[r[0][0] for r in runs], stderr=[r[1] for r in runs])
                which = 'defs' if seqs[0] != seqs[1] else 'ltinput'
                return dict(ok=False, nt=True, key='routes-differ:mid-document:' + which, cnt=cnt, obs=None, detail=detail)
        if case['s'] % 3 == 0:
            # the same definitions file read twice (and once more after the first use) changes nothing
            cnt['ltinput_twice'] = 1
            (t4, p4), e4 = tex.run(pre + pre + B, **opts)
            if e4 or t4.lstrip() != t1.lstrip():
                detail.update(ltinput_twice=t4, stderr=e4)
                return dict(ok=False, nt=True, key='routes-differ:ltinput-twice', cnt=cnt, obs=None, detail=detail)
        return dict(ok=True, nt=nt, key=None, cnt=cnt,
                    obs=dict(D=tex.short(D, 200), B=tex.short(B, 150), plain=tex.short(t2, 120)))

    def quotas(self, tier):
        return {'definitions_mid_document': 300, 'subst_definer': 300, 'subst_optional_given': 300, 'subst_optional_default': 200, 'subst_cases': 3000, 'subst_inner': 500, 'subst_arg': 500, 'subst_arg_ends_with_control_word': 500, 'routes': 2000, 'definitions_with_skipped_region': 300, 'uses_in_detached_text': 500, 'with_no_specials': 300, 'inline': 500, 'ltinput_twice': 300, 'calls': 5000, 'unknown_uses': 100, 'default_used': 300,
                'nested_calls': 500}


CHECK = C09
