"""C10 - inline maths becomes one rotating placeholder with its punctuation, nothing else.

Oracle: reference model of the statement: formula i (in expansion order) under language
L gives  [blank] + inline_L[i_L mod 6] + [final . , ; :] + [blank], i_L counting the
formulas expanded so far under L (collection rotated before each use); judged on the
exact text between the two unique words that surround each formula, plus positions.
"""
import random
import re

from .. import core, tex

INLINE = {'en': ['B-B-B', 'C-C-C', 'D-D-D', 'E-E-E', 'F-F-F', 'G-G-G'],
          'de': ['B-B-B', 'C-C-C', 'D-D-D', 'E-E-E', 'F-F-F', 'G-G-G'],
          'ru': ['Б-Б-Б', 'В-В-В', 'Г-Г-Г', 'Д-Д-Д', 'Е-Е-Е', 'Ж-Ж-Ж']}
BABEL = {'en': 'english', 'de': 'german', 'ru': 'russian'}
MSPACE = ['\\,', '\\;', '\\quad ', '~', '\\ ', '\\:', '\\qquad{}', '\\thinspace ', '\\medspace{}', '\\\t', '\\\n']
ATOMS = ['x', 'y', 'a', 'n', '1', '2', '0', '+', '-', '=', '<', '>', '/', '(', ')', '|', '!', '\\alpha', '\\beta ',
         '\\infty', '\\in ', '\\le ', '\\cdot ', '\\times ', '\\to ', '\\sum', '\\int', 'x_1', 'x^2', 'a_{ij}',
         'x^{n+1}', '\\frac{a}{b}', '\\sqrt{x}', '\\sqrt[3]{x}', '{a+b}', '\\mathrm{hopQ}', '\\mathbb{R}',
         '\\zzunkmath', '\\zzunkmath{x}', '\\left(', '\\right)', '\\ldots', '\\!', '\\label{hlabQ}', '\\nonumber ',
         ' ', '  ', '\n', '[', ']', '\\{', '\\}', '\\%', "'", '*', 'f(x)', '\\hat{x}', '\\vec v', '\\ref{hrQ}',
         '\\dots', '\\binom{n}{k}', '\\lim_{n\\to\\infty}', '\\mathcal{O}(n)', ':', ';', ',', '.', '\\#',
         '\\begin{matrix} a \\end{matrix}', '\\begin{zzmenv}b\\end{zzmenv}', '\\begin{smallmatrix}c\\end{smallmatrix}']
PUNCT = ['.', ',', ';', ':']


def gen_body(rnd):
    """-> (source, lead_space, trail_space, punct)"""
    n = rnd.randint(1, 8)
    core_ = ''
    for _ in range(n):
        a = rnd.choice(ATOMS)
        if core_ and a[0].isalpha() and re.search(r'\\[a-zA-Z]+$', core_):
            core_ += ' '          # a control word must not swallow the following letter
        core_ += a
    # the core must contain a real element and must not end in space / punctuation / a token that hides
    # a preceding mark (label, nonumber are ignored and fine, but keep the rule simple)
    core_ = re.sub(r'\n\s*\n', '\n', core_)      # no paragraph break inside a formula
    core_ = core_.rstrip()
    # the effective end of the core (ignored macros and space removed) must not be a punctuation mark
    eff = re.sub(r'(\\label\{hlabQ\}|\\nonumber ?|\\!|\s)+$', '', core_)
    if eff and eff[-1] in '.,;:':
        core_ += 'x'
    while core_ and (core_[-1] in '.,;:' or core_.endswith('\\!')):
        core_ = (core_[:-2] if core_.endswith('\\!') else core_[:-1]).rstrip()
    if not re.search(r'[a-zA-Z0-9]', re.sub(r'\\(label|nonumber|mathrm|ref)\b(\{[^}]*\})?', '', core_)):
        core_ = 'x' + core_
    if core_.startswith((' ', '\n')):
        core_ = core_.lstrip()
    lead = rnd.random() < .2
    trail = rnd.random() < .25
    punct = rnd.choice(PUNCT) if rnd.random() < .4 else ''
    src = (rnd.choice(MSPACE) if lead else '') + core_ + punct
    if trail:
        src += rnd.choice(MSPACE)
        if rnd.random() < .3:
            src += rnd.choice(MSPACE)
    return src, lead, trail, punct


class Builder:
    def __init__(self, rnd, lang, ml):
        self.rnd = rnd
        self.parts = []
        self.n = 0
        self.wid = 0
        self.events = []        # expansion order: dict(wa, wb, exp F, span, langkey, copy)
        self.lang = lang        # current language key (multi-language mode only changes it)
        self.ml = ml
        self.flows = []         # deferred (footnote) events are in expansion order already
        self.ctx = set()

    def emit(self, s):
        self.parts.append(s)
        self.n += len(s)

    def word(self):
        self.wid += 1
        w = 'w%dz' % self.wid
        self.emit(w)
        return w

    def formula(self):
        """emits 'wA <formula> wB'; returns event (language filled in later by caller order)"""
        r = self.rnd
        wa = self.word()
        self.emit(' ')
        a, b = r.choice([('$', '$'), ('$', '$'), ('\\(', '\\)')])
        body, lead, trail, punct = gen_body(r)
        st = self.n
        self.emit(a + body + b)
        en = self.n
        self.emit(' ')
        wb = self.word()
        ev = dict(wa=wa, wb=wb, lead=lead, trail=trail, punct=punct, span=(st + 1, en), lang=self.lang, body=body)
        return ev

    def item(self, depth=0):
        r = self.rnd
        k = r.choice(['plain', 'plain', 'plain', 'unkarg', 'declarg', 'userarg', 'twice', 'item', 'footnote',
                      'group', 'lang_foreign', 'lang_select', 'lang_env', 'cell', 'emph', 'heading', 'caption'])
        if depth > 1 and k in ('twice', 'footnote', 'caption', 'heading'):
            k = 'plain'
        if not self.ml and k.startswith('lang_'):
            k = 'plain'
        self.ctx.add(k)
        if k == 'plain':
            return [self.formula()]
        if k in ('unkarg', 'emph'):
            self.emit('\\zzfoo{' if k == 'unkarg' else '\\emph{')
            evs = self.seq(depth + 1)
            self.emit('}')
            return evs
        if k == 'group':
            self.emit('{')
            evs = self.seq(depth + 1)
            self.emit('}')
            return evs
        if k == 'declarg':
            self.emit(r.choice(['\\textcolor{hcQ}{', '\\LTadd{', '\\framebox{']))
            evs = self.seq(depth + 1)
            self.emit('}')
            return evs
        if k == 'userarg':
            self.emit('\\yone{')
            evs = self.seq(depth + 1)
            self.emit('}')
            return evs
        if k == 'twice':
            self.emit('\\ytwo{')
            evs = self.seq(depth + 2, allow_side=False)
            self.emit('}')
            return evs + [dict(e, copy=e.get('copy', 0) + 1) for e in evs]
        if k == 'item':
            self.emit('\\begin{itemize}\\item ')
            evs = self.seq(depth + 1)
            self.emit('\n\\end{itemize}')
            return evs
        if k == 'cell':
            self.emit('\\begin{tabular}{hQ} ')
            evs = [self.formula()]
            self.emit(' & ')
            evs.append(self.formula())
            self.emit(' \\end{tabular}')
            return evs
        if k == 'footnote':
            self.emit(r.choice(['\\footnote{', '\\footnote[2]{']))
            old = self.lang
            if self.ml and r.random() < .4:
                # a hard switch inside the footnote: holds up to its end only
                self.lang = r.choice(['en', 'de', 'ru'])
                self.emit('\\selectlanguage{%s} ' % BABEL[self.lang])
                self.ctx.add('footnote_select')
            evs = self.seq(depth + 2, allow_side=False)
            self.emit('}')
            self.lang = old
            return evs          # expanded when the footnote macro is expanded: source order
        if k == 'caption':
            self.emit('\\caption{')
            evs = self.seq(depth + 2, allow_side=False)
            self.emit('}')
            return evs
        if k == 'heading':
            # the heading handler expands its argument once for inspection: also with a language
            # switch inside (multi-language mode) the rotation must not be disturbed
            self.emit(r.choice(['\\section{', '\\subsection*{', '\\title{']))
            if self.ml and r.random() < .6:
                new = r.choice(['en', 'de', 'ru'])
                old = self.lang
                evs = [self.formula()]
                self.emit(' \\foreignlanguage{%s}{' % BABEL[new])
                self.lang = new
                evs += self.seq(depth + 2, allow_side=False)
                self.emit('} ')
                self.lang = old
                evs += [self.formula()]
                self.ctx.add('heading_lang')
            else:
                evs = self.seq(depth + 2, allow_side=False)
            self.emit('}')
            for e in evs:
                e['in_heading'] = True
            return evs
        if k == 'lang_select':
            new = r.choice(['en', 'de', 'ru'])
            self.emit('\n\n\\selectlanguage{%s}\n\n' % BABEL[new])
            self.lang = new
            return []
        if k == 'lang_foreign':
            new = r.choice(['en', 'de', 'ru'])
            old = self.lang
            self.emit('\\foreignlanguage{%s}{' % BABEL[new])
            self.lang = new
            evs = self.lang_body(depth)
            self.emit('}')
            self.lang = old
            return evs
        if k == 'lang_env':
            new = r.choice(['en', 'de', 'ru'])
            old = self.lang
            self.emit('\\begin{otherlanguage}{%s} ' % BABEL[new])
            self.lang = new
            evs = self.lang_body(depth)
            self.emit(' \\end{otherlanguage}')
            self.lang = old
            return evs
        raise ValueError(k)

    def lang_body(self, depth):
        """content of a language scope; possibly with a nested soft switch (also to the very same language)
        followed by more formulas of the outer scope"""
        r = self.rnd
        evs = self.seq(depth + 2, allow_side=False)
        if depth == 0 and r.random() < .3:
            # a footnote inside the scope: its text is in the language of the scope, and the scope ends as usual
            self.emit(' \\footnote{')
            evs += [self.formula()]
            self.emit('} ')
            evs += [self.formula()]
            self.ctx.add('lang_footnote')
        if r.random() < .5:
            outer = self.lang
            inner = r.choice([outer, outer, 'en', 'de', 'ru'])
            env = r.random() < .3
            self.emit(' \\begin{otherlanguage*}{%s} ' % BABEL[inner] if env else ' \\foreignlanguage{%s}{' % BABEL[inner])
            self.lang = inner
            evs += [self.formula()]
            self.emit(' \\end{otherlanguage*} ' if env else '} ')
            self.lang = outer
            evs += [self.formula()]
            self.ctx.add('lang_nested_same' if inner == outer else 'lang_nested')
        return evs

    def seq(self, depth, allow_side=True):
        evs = []
        for i in range(self.rnd.randint(1, 3 if depth else 6)):
            if i:
                self.emit(self.rnd.choice([' ', '\n', ' ']))
            if depth >= 2 or not allow_side:
                evs += [self.formula()]
            else:
                evs += self.item(depth)
        return evs


def build(seed, lang, ml):
    rnd = random.Random(seed)
    b = Builder(rnd, lang, ml)
    b.emit('\\newcommand{\\yone}[1]{yb #1 ye}\\newcommand{\\ytwo}[1]{#1 ym #1}\n')
    b.events = b.seq(0)
    return b


class C10(core.Check):
    id = 'C10'
    level = 'exploration'
    technique = 'runtime monitor: rotation reference model; exact text between the unique words around each formula'
    rule = ('documents with 1-15 inline formulas ($..$, \\(..\\)); bodies of 1-8 atoms over %d shapes (letters, digits, '
            'operators, sub/superscripts, fractions, roots, unknown maths macros, braces, ignored macros, line breaks), '
            'optional leading / trailing maths space (%d kinds, up to two at the end), optional final . , ; :; in running '
            'text, arguments of unknown / declared / user macros (used once or twice), groups, items, table cells, '
            'footnotes, captions, headings; languages en / de / ru; multi-language mode with \\selectlanguage, '
            '\\foreignlanguage and otherlanguage between and around formulas (rotation per language). Judged per '
            'formula: exact output text, no source character, positions inside the formula. non-trivial = >= 2 formulas; '
            'distinct = distinct (seed, language, mode)' % (len(ATOMS), len(MSPACE)))
    level_text = ('Exploration: tens of thousands of formulas per run, each judged exactly (text and positions) against a '
                  'rotation model that threads the state through arguments, duplicated arguments, footnotes and '
                  'language switches; formula content is drawn from a wide atom alphabet since everything between the '
                  'dollars must disappear.')
    level_note = 'Formulas containing \\text / \\mbox, empty or space-only formulas are outside the statement and not generated.'
    design_ref = 'DESIGN.md section 4, C10'
    assumptions = ['the final punctuation mark may be followed by maths space only (README: kept in that case)',
                   'languages other than en/de/ru fall back to the English collection and are not generated']

    def cases(self, tier, seed, shard, nshards):
        rnd = core.sub_rng('C10', seed, shard)
        n = (16000 if tier == "quick" else 160000) // nshards
        for i in range(n):
            yield dict(s=rnd.getrandbits(48), lang=rnd.choice(['en', 'en', 'de', 'ru']), ml=rnd.random() < .35)

    def judge(self, case):
        lang, ml = case['lang'], case['ml']
        b = build(case['s'], lang, ml)
        src = ''.join(b.parts)
        code = {'en': 'en-GB', 'de': 'de-DE', 'ru': 'ru-RU'}[lang]
        r, err = tex.run(src, ml=ml, lang=code if ml else lang, pack='*')
        texts = [(r[0], r[1])] if not ml else [(p[0], p[1]) for lg in r for p in r[lg]]
        cnt = {'formulas': len(b.events), 'ml_docs' if ml else 'single_docs': 1}
        for c in b.ctx:
            cnt['ctx_' + c] = 1
        detail = dict(src=src, texts=[t for t, _ in texts], stderr=err, lang=lang, ml=ml)
        if err:
            return dict(ok=False, nt=True, key='stderr', cnt=cnt, obs=None, detail=detail)
        if any('Q' in t for t, _ in texts):
            return dict(ok=False, nt=True, key='formula-source-leak:hidden-operand', cnt=cnt, obs=None, detail=detail)
        counters = {'en': 0, 'de': 0, 'ru': 0}
        seen = {}
        for ev in b.events:
            lg = ev['lang'] if ml else lang
            counters[lg] += 1
            P = INLINE[lg][counters[lg] % 6]
            F = (' ' if ev['lead'] else '') + P + ev['punct'] + (' ' if ev['trail'] else '')
            want = ' ' + F + ' '
            copy = ev.get('copy', 0)
            pat = re.compile(re.escape(ev['wa']) + r'(.*?)' + re.escape(ev['wb']), re.S)
            found = []
            for t, p in texts:
                for m in pat.finditer(t):
                    found.append((m, t, p))
            where = 'heading' if ev.get('in_heading') else ('second-copy' if copy else 'formula')
            if len(found) <= copy:
                detail.update(event=ev, want=want)
                return dict(ok=False, nt=True, key='not-found:' + where, cnt=cnt, obs=None, detail=detail)
            m, t, p = found[copy]
            got = m.group(1)
            if got != want:
                detail.update(event=ev, want=want, got=got)
                g = got.strip()
                if re.fullmatch(r'(.)-\1-\1[.,;:]?', g) and g[:5] in INLINE[lg] and g[:5] != P:
                    key = 'rotation:' + where
                elif P in got and ev['punct'] and (P + ev['punct']) not in got:
                    key = 'punctuation:' + where
                elif got.strip() == F.strip():
                    key = 'blank:' + ('lead' if ev['lead'] else 'trail' if ev['trail'] else 'none')
                else:
                    key = 'text:' + where
                return dict(ok=False, nt=True, key=key, cnt=cnt, obs=None, detail=detail)
            lo, hi = ev['span']
            for i in range(m.start(1) + 1, m.end(1) - 1):
                if not lo <= p[i] <= hi:
                    detail.update(event=ev, pos=p[i], span=[lo, hi], char=t[i])
                    return dict(ok=False, nt=True, key='position:' + ('blank' if t[i].isspace() else 'placeholder'),
                                cnt=cnt, obs=None, detail=detail)
            cnt['formulas_judged'] = cnt.get('formulas_judged', 0) + 1
            if ev['punct']:
                cnt['with_punctuation'] = cnt.get('with_punctuation', 0) + 1
            if copy:
                cnt['second_copies'] = cnt.get('second_copies', 0) + 1
        if ml and len({e['lang'] for e in b.events}) > 1:
            cnt['ml_docs_with_two_languages'] = 1
        return dict(ok=True, nt=len(b.events) >= 2, key=None, cnt=cnt,
                    obs=dict(src=tex.short(src, 300), texts=[tex.short(t, 150) for t, _ in texts][:3]))

    def quotas(self, tier):
        q = {'formulas_judged': 20000, 'with_punctuation': 3000, 'second_copies': 300,
             'ml_docs_with_two_languages': 200}
        for c in ('plain', 'unkarg', 'declarg', 'userarg', 'twice', 'item', 'footnote', 'group', 'cell', 'heading', 'heading_lang',
                  'caption', 'lang_foreign', 'lang_select', 'lang_env', 'lang_nested', 'lang_nested_same', 'lang_footnote', 'footnote_select'):
            q['ctx_' + c] = 100
        return q


CHECK = C10
