"""C14 - a proofreader match is reported at the flagged word in the LaTeX file.

The real shell is run against the fake proofreader (own process, exactly where
LanguageTool would be).  Unique words make every message identify the source occurrence
it flags; the reported location is compared with the word's location in the file in all
output modes (plain, json, xml, xml-b, html, server), plus ordering, per-part language
codes and rule options in multi-language mode, and the context excerpt.
"""
import json
import os
import random
import re
import shutil
import socket
import subprocess
import tempfile
import time
import urllib.parse
import urllib.request
import xml.etree.ElementTree as ET

from .. import core, env, tex, shellrun, htmlreport
from ..gen import docs as gdocs
from . import c12

WORD = r'w[0-9a-z]+[^\W\d_Q]*z'
DOC_KINDS = ['word', 'word', 'atom', 'unk', 'unkarg', 'label', 'ref', 'cite', 'section', 'footnote', 'textcolor',
             'comment', 'itemize', 'enumerate', 'verb', 'inline', 'display', 'tabular', 'usermac', 'usermac2',
             'latexname', 'emph', 'group', 'accent', 'par', 'caption', 'mathtext', 'proof', 'vanish', 'skip']


def line_col(tex_, off):
    nl = tex_.rfind('\n', 0, off) + 1
    return tex_.count('\n', 0, off) + 1, off - nl + 1


free_port = shellrun.free_port


class C14(core.Check):
    id = 'C14'
    level = 'exploration'
    technique = 'runtime monitor: real shell + programmable fake proofreader; unique flagged words identify their file location; cross-format agreement'
    rule = ('doc: generated documents (unique words, non-ASCII and astral characters, several lines, footnotes, formulas, '
            'lists, macros) x plan (every k-th word flagged) x modes plain / json / xml / xml-b / html: line, column, '
            'length, byte columns, highlighted text and row, context excerpt, ordering by file position, cross-format '
            'agreement. ml: multi-language documents: each part submitted once under the model language code with the '
            'configured rule options (--ml-disable* exactly for parts of <= --ml-rule-threshold words), matches of '
            'later parts land on their own words. pairs: arbitrary in-range (offset, length) plans vs the location '
            'derived from the filter\'s own map. server: --as-server on a free port, requests for several documents. '
            'non-trivial = at least one flagged word judged; distinct = distinct (document, plan, options)')
    level_text = ('Exploration through the real process boundaries: each case runs the actual shell several times '
                  '(0.25 s per run), so hundreds (quick) to thousands (thorough) of documents x match sets x modes are '
                  'judged; agreement between formats and ordering are relations over all documents and match sets.')
    level_note = 'A real LanguageTool is replaced by the fake; --server lt / --textgears are unreachable offline; --server my (fixed port 8081) is not exercised.'
    design_ref = 'DESIGN.md section 4, C14'
    assumptions = ['the fake proofreader answers in LanguageTool JSON format; its request log is the call event at the boundary']

    nshards_quick = 16
    nshards_thorough = 64
    budget_quick = 900

    def setup(self, tier):
        self.tmp = tempfile.mkdtemp(prefix='yvm_c14_')

    def teardown(self):
        shutil.rmtree(self.tmp, ignore_errors=True)

    def cases(self, tier, seed, shard, nshards):
        rnd = core.sub_rng('C14', seed, shard)
        n = (480 if tier == 'quick' else 6000) // nshards
        for i in range(n):
            r = i % 6
            if r in (0, 1, 2):
                yield dict(fam='doc', s=rnd.getrandbits(48), lang=rnd.choice(['en', 'de', 'ru']),
                           every=rnd.choice([1, 1, 2, 3]), ctx=rnd.choice([-1, 0, 1, 2, 5]),
                           xmlb=rnd.random() < .5, newline_end=rnd.random() < .7)
            elif r in (3, 4):
                yield dict(fam='ml', s=rnd.getrandbits(48), main=rnd.choice(['en-GB', 'de-DE', 'ru-RU']),
                           T=rnd.randint(0, 4), R=rnd.randint(0, 4), every=rnd.choice([1, 2]),
                           mode=rnd.choice(['json', 'plain', 'xml']))
            else:
                yield dict(fam='pairs', s=rnd.getrandbits(48), lang=rnd.choice(['en', 'de']))
        nserv = (3 if tier == 'quick' else 20)
        for k in range(nserv):
            if k % nshards == shard:
                yield dict(fam='server', s=rnd.getrandbits(48), nreq=8 if tier == 'quick' else 20)

    # ------------------------------------------------------------------
    def judge(self, case):
        return getattr(self, 'judge_' + case['fam'])(case)

    def expected_words(self, d, src):
        return {w: st for w, st, path in d.words}

    def judge_doc(self, case):
        rnd = random.Random(case['s'])
        plain_input = case['s'] % 7 == 3
        if plain_input:
            # --plain-input: the file is submitted as it is (identity map), LaTeX-looking material stays literal
            d = gdocs.Doc()
            d.words = []
            txt = ''
            for k in range(rnd.randint(3, 40)):
                w = 'w%sz' % gdocs.b33(k + 1) + rnd.choice(['', '', 'ä', '\U0001d538'])
                d.words.append((w + 'z' if not w.endswith('z') else w, len(txt), ()))
                txt += d.words[-1][0] + rnd.choice([' ', ' ', '\n', '. ', ' \\alpha ', ' $x$ ', ' % c\n', '\n\n', ' {} ', '\t',
                                                    # line ends for str.splitlines() only: the line count goes by '\n'
                                                    ' \x0c ', '\u2028', ' \x85', '\x0b', '\x1c '])
            d.src = txt
        else:
            d = gdocs.random_document(rnd, size=rnd.randint(2, 7), lang=case['lang'], kinds=DOC_KINDS, max_depth=4,
                                      pack='*', theorems=False, preamble=case['s'] % 3 != 0)
        cnt = {'fam_doc': 1}
        srclen = {}
        if not plain_input and case['s'] % 5 in (2, 4):
            # some words are continued on the next source line behind a comment sign: one word of the plain text
            # whose source spans a line break (its report starts in one line and ends in the next)
            src_ = d.src
            ws = sorted(d.words, key=lambda x: x[1])
            elig = [i for i, (w, st, path) in enumerate(ws) if len(w) >= 3 and w.isascii() and d.src.count(w) == 1
                    and not any(t in p for p in path for t in ('verb', 'math', 'lst', 'twice'))]
            pick = set(rnd.sample(elig, min(len(elig), rnd.randint(1, 3))))
            shift = 0
            out = []
            for i, (w, st, path) in enumerate(ws):
                st += shift
                if i in pick:
                    k = rnd.randint(1, len(w) - 1)
                    ins = '%' + rnd.choice(['', 'hcQ', ' hc']) + '\n' + rnd.choice(['', '  ', '\t'])
                    src_ = src_[:st + k] + ins + src_[st + k:]
                    shift += len(ins)
                    srclen[w] = len(w) + len(ins)
                out.append((w, st, path))
            d.src = src_
            d.words = out
            cnt['split_words'] = len(pick)
        if not plain_input and case['s'] % 4 == 2:
            # form feeds etc. in place of some blanks between words (white space for LaTeX, no line ends)
            spots = [m.start() for m in re.finditer(r'(?<=[a-z.,]) (?=w[0-9a-z])', d.src)]
            for k in rnd.sample(spots, min(len(spots), 3)):
                d.src = d.src[:k] + rnd.choice(['\x0c', '\x0b', '\x1c', '\x85', '\u2028']) + d.src[k + 1:]
            cnt['docs_with_odd_line_separators'] = 1
        src = d.src if case['newline_end'] else d.src.rstrip('\n')
        lang = {'en': 'en-GB', 'de': 'de-DE', 'ru': 'ru-RU'}[case['lang']]
        plan = {'mode': 'words', 'regex': WORD, 'every': case['every']}
        if case['s'] % 3 == 1:
            # in addition one match over the whole text (a sentence-level rule): the flagged words lie inside it
            plan['extra'] = [['span', r'(?s)\S.*\S']]
            cnt['docs_with_enclosing_match'] = 1
        words = {w: st for w, st, path in d.words}
        # a word with a separate combining accent is cut by the proofreader's word pattern: the piece may equal
        # another (shorter) generated word -> such pieces are not judged
        for w in list(words):
            m = re.match(WORD, w)
            if m and m.group(0) != w:
                words.pop(m.group(0), None)
        base = ['--language', lang]
        own = case['s'] % 4 == 1
        if own:
            # the shell's own checks add messages that are merged and sorted with the proofreader's
            base += ['--single-letters', 'A|I||', '--equation-punctuation', 'all']
            cnt['docs_with_own_checks'] = 1
        if plain_input:
            base.append('--plain-input')
            cnt['plain_input_docs'] = 1
        base.append('f.tex')
        results = {}
        modes = ['plain', 'json', 'xml-b' if case['xmlb'] else 'xml', 'html']
        for mode in modes:
            args = ['--output', mode]
            if mode == 'html':
                args += ['--context', str(case['ctx'])]
            r = shellrun.run_shell(args + base, {'f.tex': src}, plan, workdir=self.tmp)
            if r.timed_out:
                return dict(ok=True, nt=False, key=None, cnt={'timeouts': 1}, obs=None,
                            harness_error='shell run exceeded the wall-clock watchdog')
            if r.rc != 0:
                return dict(ok=False, nt=True, key='exit%s:%s' % (r.rc, mode), cnt=cnt, obs=None,
                            detail=dict(src=src, mode=mode, stderr=r.err[-1500:]))
            results[mode] = r
        tex_ = src if src.endswith('\n') else src + '\n'
        # flagged words, from the request log (what the proofreader was given)
        if not results['json'].calls and not d.words and not json.loads(results['json'].out.decode('utf-8'))['matches']:
            cnt['blank_documents'] = 1
            return dict(ok=True, nt=False, key=None, cnt=cnt, obs=None)
        if len(results['json'].calls) != 1:
            return dict(ok=False, nt=True, key='calls', cnt=cnt, obs=None,
                        detail=dict(src=src, calls=len(results['json'].calls)))
        # ---- json
        jm_all = json.loads(results['json'].out.decode('utf-8'))['matches']
        offs_all = [m['offset'] for m in jm_all]
        if offs_all != sorted(offs_all):
            return dict(ok=False, nt=True, key='json:order-with-own-checks' if own else 'json:order', cnt=cnt, obs=None,
                        detail=dict(src=src, offsets=offs_all))
        # (the enclosing match 'MSG<call>.x0' only shapes the report, it is not judged itself)
        jm = [m for m in jm_all if m['message'].startswith('MSG') and '.x' not in m['message'].split(':', 1)[0]]
        locs = {}
        order = []
        for m in jm:
            w = m['message'].split(':', 1)[1]
            mid = m['message'].split(':', 1)[0]
            detail = dict(src=src, word=w, message=m['message'], mode='json')
            if w not in words:
                continue            # a word glued to a neighbour etc.: not judged
            o = words[w]
            ln, col = line_col(tex_, o)
            sl = srclen.get(w, len(w))
            ln2, col2 = line_col(tex_, o + sl - 1)
            want = dict(offset=o, length=sl, fromy=ln - 1, fromx=col - 1, toy=ln2 - 1, tox=col2)
            got = dict(offset=m['offset'], length=m['length'], **{k: m['priv'][k] for k in ('fromy', 'fromx', 'toy', 'tox')})
            if got != want:
                detail.update(got=got, want=want)
                return dict(ok=False, nt=True, key='json:location', cnt=cnt, obs=None, detail=detail)
            locs[mid] = (w, o, ln, col)
            order.append(o)
            c = m['context']
            if c['text'][c['offset']:c['offset'] + c['length']] != w:
                detail.update(context=c)
                return dict(ok=False, nt=True, key='context-excerpt', cnt=cnt, obs=None, detail=detail)
        if order != sorted(order):
            return dict(ok=False, nt=True, key='json:order', cnt=cnt, obs=None, detail=dict(src=src, offsets=order))
        # ---- plain
        pt = results['plain'].out.decode('utf-8')
        blocks_all = re.findall(r'=== f\.tex ===\n(\d+)\.\) Line (\d+), column (\d+), Rule ID: (\S+)\nMessage: (.*)\n', pt)
        if [int(b[0]) for b in blocks_all] != list(range(1, len(blocks_all) + 1)) or len(blocks_all) != len(jm_all):
            return dict(ok=False, nt=True, key='plain:numbering', cnt=cnt, obs=None,
                        detail=dict(src=src, text=pt[:500], n_json=len(jm_all)))
        blocks = re.findall(r'=== f\.tex ===\n(\d+)\.\) Line (\d+), column (\d+), Rule ID: (\S+)\nMessage: (MSG[^:]*):(.*)\n'
                            r'Suggestion: .*\n(.*)\n( *)(\^*)\n', pt)
        seen = []
        for nr, ln, col, rule, mid, w, ctxline, sp, mark in blocks:
            seen.append(mid)
            if mid not in locs:
                continue
            _, o, eln, ecol = locs[mid]
            if (int(ln), int(col)) != (eln, ecol) or len(mark) != len(w):
                return dict(ok=False, nt=True, key='plain:location', cnt=cnt, obs=None,
                            detail=dict(src=src, word=w, got=[int(ln), int(col), len(mark)], want=[eln, ecol, len(w)]))
            if ctxline[len(sp):len(sp) + len(mark)] != w:
                return dict(ok=False, nt=True, key='plain:context', cnt=cnt, obs=None,
                            detail=dict(src=src, word=w, context=ctxline, marker=sp + mark))
        if [b[4] for b in blocks if '.x' not in b[4]] != [m['message'].split(':', 1)[0] for m in jm]:
            return dict(ok=False, nt=True, key='plain-vs-json:messages', cnt=cnt, obs=None,
                        detail=dict(src=src, plain=[b[4] for b in blocks],
                                    json=[m['message'].split(':', 1)[0] for m in jm]))
        # ---- xml / xml-b
        xmode = 'xml-b' if case['xmlb'] else 'xml'
        xt = results[xmode].out.decode('utf-8')
        try:
            root = ET.fromstring(xt)
        except ET.ParseError as e:
            if re.search('[\x00-\x08\x0b\x0c\x0e-\x1f]', src):
                # the source holds a character that XML 1.0 cannot represent (form feed ...): the XML report is
                # not judged for such a file (well-formedness is not part of the statement), the other modes are
                cnt['xml_not_representable'] = 1
                root = ET.fromstring('<matches></matches>')
                jm = []
            else:
                return dict(ok=False, nt=True, key='xml:not-well-formed', cnt=cnt, obs=None,
                            detail=dict(src=src, xml=xt[:800], error=str(e)))
        errs = [e for e in root.findall('error') if e.get('msg').startswith('MSG') and '.x' not in e.get('msg').split(':', 1)[0]]
        if [e.get('msg').split(':', 1)[0] for e in errs] != [m['message'].split(':', 1)[0] for m in jm]:
            return dict(ok=False, nt=True, key='xml-vs-json:messages', cnt=cnt, obs=None, detail=dict(src=src, xml=xt[:800]))
        for e in errs:
            mid = e.get('msg').split(':', 1)[0]
            if mid not in locs:
                continue
            w, o, ln, col = locs[mid]
            nl = tex_.rfind('\n', 0, o) + 1
            e_ = o + srclen.get(w, len(w))          # one behind the last source character of the word
            nl2 = tex_.rfind('\n', 0, e_ - 1) + 1
            ln2 = tex_.count('\n', 0, e_ - 1) + 1
            if case['xmlb']:
                fx = len(tex_[nl:o].encode())
                tx = len(tex_[nl2:e_].encode())
            else:
                fx = o - nl
                tx = e_ - nl2
            want = [ln - 1, fx, ln2 - 1, tx]
            got = [int(e.get(k)) for k in ('fromy', 'fromx', 'toy', 'tox')]
            if got != want:
                return dict(ok=False, nt=True, key=xmode + ':location', cnt=cnt, obs=None,
                            detail=dict(src=src, word=w, got=got, want=want))
            ctext, coff, clen = e.get('context'), int(e.get('contextoffset')), int(e.get('errorlength'))
            if case['xmlb']:
                ok = ctext.encode()[coff:coff + clen].decode('utf-8', 'replace') == w
            else:
                ok = ctext[coff:coff + clen] == w
            if not ok:
                return dict(ok=False, nt=True, key=xmode + ':context', cnt=cnt, obs=None,
                            detail=dict(src=src, word=w, context=ctext, offset=coff, length=clen))
        # ---- html
        rep = htmlreport.parse(results['html'].out.decode('utf-8'))
        byid = {}
        for title, text, table, lineno, style in rep.spans:
            m = re.match(r'(MSG[^:]*):', title or '')
            if m:
                byid.setdefault(m.group(1), []).append((htmlreport.norm(text), lineno))
        for mid, (w, o, ln, col) in locs.items():
            if w in srclen:
                continue        # highlighted source text of a split word contains the comment: judged by C16
            got = byid.get(mid)
            if not got:
                return dict(ok=False, nt=True, key='html:match-missing', cnt=cnt, obs=None, detail=dict(src=src, word=w))
            txt = ''.join(t for t, _ in got)
            lineno = got[0][1].replace('\xa0', '').strip()
            if txt != w or lineno != str(ln):
                return dict(ok=False, nt=True, key='html:location', cnt=cnt, obs=None,
                            detail=dict(src=src, word=w, highlighted=txt, row=lineno, want_row=ln))
        cnt['flagged_words_judged'] = len(locs)
        cnt['modes_compared'] = len(modes)
        if any(ord(c) > 127 for w in words for c in w):
            cnt['docs_with_non_ascii_words'] = 1
        return dict(ok=True, nt=bool(locs), key=None, cnt=cnt,
                    obs=dict(src=tex.short(src, 200), flagged=len(locs), first=list(locs.values())[:2]))

    # ------------------------------------------------------------------
    def judge_ml(self, case):
        rnd = random.Random(case['s'])
        main = case['main']
        g = c12.G(rnd, main)
        g.w('\\usepackage{babel}\n')
        files = {}
        extra_args = []
        if case['s'] % 3 == 0:
            # phrase replacements (main language only) that change the length of the text in front of the words
            g.w(rnd.choice(['yphra yphrb ', 'yphrc ', 'yphra yphrb yphrc ']))
            files['r.txt'] = 'yphra yphrb & yx\nyphrc & ylonger replacement text\n'
            extra_args = ['--replace', 'r.txt']
        g.seq(rnd.randint(2, 6))
        if extra_args and g.stack[-1] == main and len(g.stack) == 1 and rnd.random() < .6:
            g.w(' yphrc yphra yphrb ')
            g.word()
        rep_offsets = []
        if case['s'] % 5 < 2:
            # the very same foreign passage twice: two identical parts are submitted in one run, each occurrence of
            # a flagged word must be reported at its own place
            lang = g.other()
            for k in range(2):
                g.w('\n\\begin{otherlanguage}{%s}\n' % lang)
                for j in range(5):
                    rep_offsets.append(g.n)
                    g.w('yrepz' + (' ' if j < 4 else ''))
                g.w('\n\\end{otherlanguage}\n')
                g.word()
                g.w(' ')
                g.word()
        for _ in range(rnd.randint(0, 2)):
            g.probe()
        g.w('\n')
        src = ''.join(g.buf)
        T, R = case['T'], case['R']
        plan = {'mode': 'words', 'regex': r'w\d+z|yrepz', 'every': case['every']}
        args = ['--multi-language', '--language', main, '--ml-continue-threshold', str(T),
                '--ml-rule-threshold', str(R), '--disable', 'RULEA', '--enable', 'RULEB',
                '--disablecategories', 'CATA', '--ml-disable', 'MLRULE', '--ml-disablecategories', 'MLCAT',
                '--output', case['mode']] + extra_args + ['f.tex']
        files['f.tex'] = src
        r = shellrun.run_shell(args, files, plan, workdir=self.tmp)
        cnt = {'fam_ml': 1}
        if extra_args:
            cnt['ml_with_replacements'] = 1
        detail = dict(src=src, main=main, T=T, R=R, stderr=r.err[-800:] if r.err else '')
        if r.timed_out:
            return dict(ok=True, nt=False, key=None, cnt={'timeouts': 1}, obs=None, harness_error='watchdog')
        if r.rc != 0:
            return dict(ok=False, nt=True, key='ml:exit%s' % r.rc, cnt=cnt, obs=None, detail=detail)
        lang_of = {w: lang for w, st, lang in g.words}
        pos_of = {w: st for w, st, lang in g.words}
        # (5) each part submitted once, under the model language code, with the right options
        seen_words = {}
        for k, call in enumerate(r.calls):
            av = call['argv']
            code = av[av.index('--language') + 1]
            ws = re.findall(r'w\d+z', call['text'])
            for w in ws:
                if w in seen_words:
                    detail.update(word=w)
                    return dict(ok=False, nt=True, key='ml:word-submitted-twice', cnt=cnt, obs=None, detail=detail)
                seen_words[w] = k
                if lang_of.get(w) != code:
                    detail.update(word=w, submitted_as=code, model=lang_of.get(w))
                    return dict(ok=False, nt=True, key='ml:language-code', cnt=cnt, obs=None, detail=detail)
            short = len(call['text'].split()) <= R
            dis = av[av.index('--disable') + 1]
            disc = av[av.index('--disablecategories') + 1]
            want_dis = 'RULEA,MLRULE' if short else 'RULEA'
            want_disc = 'CATA,MLCAT' if short else 'CATA'
            if dis != want_dis or disc != want_disc or av[av.index('--enable') + 1] != 'RULEB':
                detail.update(call=call, want=[want_dis, want_disc])
                return dict(ok=False, nt=True, key='ml:rule-options', cnt=cnt, obs=None, detail=detail)
            if short:
                cnt['ml_short_parts'] = cnt.get('ml_short_parts', 0) + 1
        missing = [w for w in lang_of if w not in seen_words]
        if missing:
            detail.update(missing=missing[:5])
            return dict(ok=False, nt=True, key='ml:word-not-submitted', cnt=cnt, obs=None, detail=detail)
        cnt['ml_parts'] = len(r.calls)
        # locations
        out = r.out.decode('utf-8')
        tex_ = src
        got = []
        if case['mode'] == 'json':
            for m in json.loads(out)['matches']:
                got.append((m['message'].split(':', 1)[1], m['offset'], m['length']))
        elif case['mode'] == 'plain':
            for ln, col, w in re.findall(r'Line (\d+), column (\d+), Rule ID: \S+\nMessage: MSG[^:]*:(.*)\n', out):
                lines = tex_.split('\n')
                off = sum(len(x) + 1 for x in lines[:int(ln) - 1]) + int(col) - 1
                got.append((w, off, len(w)))
        else:
            for e in ET.fromstring(out).findall('error'):
                w = e.get('msg').split(':', 1)[1]
                lines = tex_.split('\n')
                off = sum(len(x) + 1 for x in lines[:int(e.get('fromy'))]) + int(e.get('fromx'))
                got.append((w, off, int(e.get('tox')) - int(e.get('fromx'))))
        for w, off, ln in got:
            if w in pos_of and (off, ln) != (pos_of[w], len(w)):
                detail.update(word=w, got=[off, ln], want=[pos_of[w], len(w)])
                return dict(ok=False, nt=True, key='ml:location', cnt=cnt, obs=None, detail=detail)
        reps = [off for w, off, ln in got if w == 'yrepz']
        if len(reps) != len(set(reps)) or any(o not in rep_offsets for o in reps):
            detail.update(reported=reps, occurrences=rep_offsets)
            return dict(ok=False, nt=True, key='ml:repeated-part:location', cnt=cnt, obs=None, detail=detail)
        if rep_offsets:
            cnt['ml_repeated_parts'] = 1
        offs = [o for _, o, _ in got]
        if offs != sorted(offs):
            detail.update(offsets=offs)
            return dict(ok=False, nt=True, key='ml:order', cnt=cnt, obs=None, detail=detail)
        flagged = sum(1 for c in r.calls for k, _ in enumerate(re.findall(r'w\d+z|yrepz', c['text']), 1) if k % case['every'] == 0)
        if len(got) != flagged:
            detail.update(reported=len(got), flagged=flagged)
            return dict(ok=False, nt=True, key='ml:message-count', cnt=cnt, obs=None, detail=detail)
        cnt['ml_words_judged'] = len(got)
        if len(r.calls) >= 2:
            cnt['ml_runs_with_several_parts'] = 1
        return dict(ok=True, nt=bool(got), key=None, cnt=cnt,
                    obs=dict(src=tex.short(src, 200), parts=[(c['argv'][c['argv'].index('--language') + 1],
                                                             tex.short(c['text'], 40)) for c in r.calls][:4]))

    # ------------------------------------------------------------------
    def judge_pairs(self, case):
        rnd = random.Random(case['s'])
        d = gdocs.random_document(rnd, size=rnd.randint(2, 6), lang=case['lang'], kinds=DOC_KINDS, max_depth=4,
                                  pack='*', theorems=False)
        src = d.src
        tex_ = src if src.endswith('\n') else src + '\n'
        lang = {'en': 'en-GB', 'de': 'de-DE'}[case['lang']]
        (plain, pmap), err = tex.run(tex_, lang=lang, pack='*')
        cnt = {'fam_pairs': 1}
        if not plain.strip():
            return dict(ok=True, nt=False, key=None, cnt=cnt, obs=None)
        pairs = []
        for _ in range(rnd.randint(1, 8)):
            o = rnd.randrange(len(plain))
            n = rnd.choice([1, 1, 2, 3, 5, 10])
            n = max(1, min(n, len(plain) - o))
            pairs.append([o, n])
        pairs += [[0, 1], [len(plain) - 1, 1]]
        # single characters written as a control symbol or with an accent macro (\&, \%, \"o): image of length 1 that
        # starts at a backslash
        spots = [i for i, ch in enumerate(plain) if ch in '&%$#_{}' or (ord(ch) > 127 and ch.isalpha())]
        pairs += [[i, 1] for i in rnd.sample(spots, min(len(spots), 6))]
        r = shellrun.run_shell(['--output', 'json', '--language', lang, 'f.tex'], {'f.tex': src},
                               {'mode': 'offsets', 'pairs': pairs}, workdir=self.tmp)
        if r.timed_out:
            return dict(ok=True, nt=False, key=None, cnt={'timeouts': 1}, obs=None, harness_error='watchdog')
        detail = dict(src=src, pairs=pairs, stderr=r.err[-500:])
        if r.rc != 0:
            return dict(ok=False, nt=True, key='pairs:exit%s' % r.rc, cnt=cnt, obs=None, detail=detail)
        if r.calls[0]['text'] != plain:
            detail.update(submitted=r.calls[0]['text'], plain=plain)
            return dict(ok=False, nt=True, key='pairs:submitted-text', cnt=cnt, obs=None, detail=detail)
        ms = json.loads(r.out.decode('utf-8'))['matches']
        got = sorted((m['offset'], m['length']) for m in ms)
        want = []
        for o, n in pairs:
            beg = pmap[o] - 1
            ln = pmap[o + n - 1] - pmap[o] + 1
            if ln == 1 and tex_[beg] == '\\':
                mm = re.match(r'\\[A-Za-z]+', tex_[beg:])
                if mm and beg < len(tex_) - 1:
                    ln = len(mm.group(0))
            want.append((beg, ln))
        if got != sorted(want):
            detail.update(got=got, want=sorted(want))
            return dict(ok=False, nt=True, key='pairs:location', cnt=cnt, obs=None, detail=detail)
        offs = [m['offset'] for m in ms]
        if offs != sorted(offs):
            return dict(ok=False, nt=True, key='pairs:order', cnt=cnt, obs=None, detail=detail)
        cnt['pairs_judged'] = len(pairs)
        return dict(ok=True, nt=True, key=None, cnt=cnt, obs=dict(src=tex.short(src, 150), pairs=pairs[:4]))

    # ------------------------------------------------------------------
    def judge_server(self, case):
        rnd = random.Random(case['s'])
        d = tempfile.mkdtemp(prefix='srv_', dir=self.tmp)
        log = os.path.join(d, 'lt.log')
        planf = os.path.join(d, 'plan.json')
        with open(planf, 'w') as f:
            json.dump({'mode': 'words', 'regex': WORD}, f)

        def make_cmd(port):
            return [env.PY, '-m', 'yalafi.shell', '--no-config', '--as-server', str(port), '--lt-command',
                    '%s -S %s' % (env.PY, shellrun.FAKELT), '--lt-options', '~--disable CFGRULE --enablecategories CFGCAT']
        e = env.child_env({'YVM_LT_LOG': log, 'YVM_LT_PLAN': planf})
        errp = os.path.join(d, 'server.stderr')
        srv, port = shellrun.launch_server(make_cmd, d, lambda port: e, errp)
        cnt = {'fam_server': 1}
        try:
            up = srv is not None
            if not up:
                return dict(ok=True, nt=False, key=None, cnt={'server_not_up': 1}, obs=None,
                            harness_error='server did not come up (inconclusive)')
            for k in range(case['nreq']):
                doc = gdocs.random_document(rnd, size=rnd.randint(1, 5), kinds=DOC_KINDS, max_depth=3, pack='*',
                                            theorems=False)
                src = doc.src
                fields = {'text': src, 'language': 'en-GB'}
                # request fields override the configured proofreader options for this request only
                want_opts = {'--disable': 'CFGRULE', '--enablecategories': 'CFGCAT'}
                if rnd.random() < .4:
                    fields['disabledRules'] = 'REQRULE%d' % k
                    want_opts['--disable'] = fields['disabledRules']
                if rnd.random() < .3:
                    fields['enabledCategories'] = 'REQCAT%d' % k
                    want_opts['--enablecategories'] = fields['enabledCategories']
                ncalls = sum(1 for _ in open(log)) if os.path.exists(log) else 0
                data = urllib.parse.urlencode(fields).encode('ascii')
                with urllib.request.urlopen('http://localhost:%d/v2/check' % port, data=data, timeout=60) as rp:
                    ms = json.loads(rp.read().decode('utf-8'))['matches']
                calls = [json.loads(ln) for ln in open(log)][ncalls:] if os.path.exists(log) else []
                for c in calls:
                    av = c['argv']
                    got_opts = {o: av[av.index(o) + 1] if o in av else None for o in want_opts}
                    last = {o: av[len(av) - 1 - av[::-1].index(o) + 1] if o in av else None for o in want_opts}
                    if last != want_opts or got_opts != want_opts:
                        return dict(ok=False, nt=True, key='server:rule-options', cnt=cnt, obs=None,
                                    detail=dict(request=k, fields={x: y for x, y in fields.items() if x != 'text'},
                                                argv=av, want=want_opts))
                    cnt['server_option_checks'] = cnt.get('server_option_checks', 0) + 1
                words = {w: st for w, st, path in doc.words}
                offs = []
                for m in ms:
                    w = m['message'].split(':', 1)[1]
                    offs.append(m['offset'])
                    if w in words and (m['offset'], m['length']) != (words[w], len(w)):
                        return dict(ok=False, nt=True, key='server:location', cnt=cnt, obs=None,
                                    detail=dict(src=src, word=w, got=[m['offset'], m['length']], want=[words[w], len(w)]))
                if offs != sorted(offs):
                    return dict(ok=False, nt=True, key='server:order', cnt=cnt, obs=None, detail=dict(src=src, offsets=offs))
                cnt['server_requests'] = cnt.get('server_requests', 0) + 1
                cnt['server_words_judged'] = cnt.get('server_words_judged', 0) + len(ms)
        finally:
            if srv is not None:
                srv.terminate()
                try:
                    srv.wait(timeout=10)
                except subprocess.TimeoutExpired:
                    srv.kill()
            shutil.rmtree(d, ignore_errors=True)
        return dict(ok=True, nt=True, key=None, cnt=cnt, obs=dict(requests=case['nreq'], port=port))

    def quotas(self, tier):
        return {'fam_doc': 40, 'docs_with_own_checks': 10, 'plain_input_docs': 8, 'flagged_words_judged': 300, 'fam_ml': 25, 'ml_words_judged': 100,
                'ml_runs_with_several_parts': 10, 'ml_short_parts': 5, 'pairs_judged': 50, 'server_requests': 10, 'server_option_checks': 10,
                'docs_with_non_ascii_words': 5, 'split_words': 20, 'ml_repeated_parts': 8, 'ml_with_replacements': 10, 'docs_with_enclosing_match': 15}


CHECK = C14
