"""C12 - multi-language mode assigns every word to exactly one part of the right language.

Oracle: language-stack model over the generated command tree (initial language, babel
package option, \\selectlanguage, \\foreignlanguage, otherlanguage(*), nesting, footnotes
start in the language in force at their call); every unique word in exactly one part,
part labelled with the model language, exact positions; clear-cut insertions of k words
inside a sentence: joined by one placeholder iff k <= threshold; conservation against
the single-language run.
"""
import collections
import random
import re

from .. import core, tex

LMAP = {'english': 'en-GB', 'german': 'de-DE', 'french': 'fr', 'russian': 'ru-RU', 'ngerman': 'de-DE',
        'american': 'en-US', 'italian': 'it'}
CHANGE = {'en': ['K-K-K', 'L-L-L', 'M-M-M', 'N-N-N'], 'de': ['K-K-K', 'L-L-L', 'M-M-M', 'N-N-N'],
          'ru': ['К-К-К', 'Л-Л-Л', 'М-М-М', 'Н-Н-Н']}
MAINS = ['en-GB', 'de-DE', 'ru-RU', 'fr', 'en-US']


def lang_key(code):
    k = code[:2].lower()
    return k if k in CHANGE else 'en'


class G:
    def __init__(self, rnd, main):
        self.rnd = rnd
        self.buf = []
        self.n = 0
        self.wid = 0
        self.stack = [main]
        self.words = []         # (word, start, language)
        self.depth = 0
        self.infoot = False
        self.probes = []        # (word before, word after, k, surrounding language, kind)
        self.kinds = collections.Counter()

    def w(self, t):
        self.buf.append(t)
        self.n += len(t)

    def word(self):
        self.wid += 1
        w = 'w%dz' % self.wid
        self.words.append((w, self.n, self.stack[-1]))
        self.w(w)
        return w

    def chunk(self):
        """one word in the sense of the threshold: a unit without white space, possibly a compound with hyphens,
        an apostrophe or a decimal number"""
        self.word()
        r = self.rnd.random()
        if r < .2:
            self.w(self.rnd.choice(['-', "'", '-']))
            self.word()
            if self.rnd.random() < .4:
                self.w('-')
                self.word()
            self.kinds['compound'] += 1
        elif r < .27:
            self.w(self.rnd.choice([',', '.', ':']) + '5')

    def other(self):
        names = [x for x in LMAP if LMAP[x] != self.stack[-1]]
        return self.rnd.choice(names)

    def seq(self, n):
        for i in range(n):
            self.node()
            if i < n - 1:
                self.w(self.rnd.choice([' ', ' ', '\n']))

    def node(self):
        r = self.rnd
        k = r.choice(['word'] * 6 + ['fl', 'fl', 'ol', 'sel', 'unk', 'foot', 'same', 'decl', 'item', 'head',
                                     'sel_in', 'optend', 'ol_lines', 'ol_lines', 'mbox_fl']) if self.depth < 3 else 'word'
        if k == 'sel' and (self.depth > 0 or self.infoot):
            k = 'word'
        if k == 'ol_lines' and (self.depth > 0 or self.infoot):
            k = 'ol'
        if k in ('foot', 'head') and (self.infoot or self.depth > 1):
            k = 'word'
        self.kinds[k] += 1
        self.depth += 1
        if k == 'word':
            self.word()
        elif k == 'fl':
            lang = self.other()
            self.w('\\foreignlanguage{%s}{' % lang)
            self.stack.append(LMAP[lang])
            if r.random() < .3:
                self.w(r.choice([' ', '\n', '  ']))        # white space at the border of the insertion is copied
            self.seq(r.randint(1, 5))
            if r.random() < .3:
                self.w(r.choice([' ', '\n', ' \n']))
            self.stack.pop()
            self.w('}')
        elif k == 'optend':
            # a macro / environment with an absent trailing optional argument ends a foreign-language argument
            lang = self.other()
            self.w('\\foreignlanguage{%s}{' % lang)
            self.stack.append(LMAP[lang])
            self.word()
            self.w(r.choice([' \\footnotemark', ' \\yopt', '\\footnotemark', ' \\vspace*{1ex}\\footnotemark']))
            self.stack.pop()
            self.w('}')
            self.w(' ')
            self.word()
            self.w(' ')
            self.word()
        elif k == 'same':
            # nested command for the language already in force
            cur = next(x for x in LMAP if LMAP[x] == self.stack[-1]) if self.stack[-1] in LMAP.values() else None
            if cur is None:
                self.word()
            else:
                self.w('\\foreignlanguage{%s}{' % cur)
                self.stack.append(LMAP[cur])
                self.seq(r.randint(1, 3))
                self.stack.pop()
                self.w('}')
                self.w(' ')
                self.word()
        elif k == 'sel_in':
            # \selectlanguage directly inside the body of \foreignlanguage: local to that body
            lang = self.other()
            self.w('\\foreignlanguage{%s}{' % lang)
            self.stack.append(LMAP[lang])
            self.word()
            lang2 = self.other()
            self.w(' \\selectlanguage{%s} ' % lang2)
            self.stack[-1] = LMAP[lang2]
            self.word()
            self.stack.pop()
            self.w('}')
            self.w(' ')
            self.word()
        elif k == 'ol':
            lang = self.other()
            env = r.choice(['otherlanguage', 'otherlanguage*'])
            self.w('\\begin{%s}{%s}' % (env, lang))
            self.stack.append(LMAP[lang])
            self.w(' ')
            self.seq(r.randint(1, 5))
            self.w(' ')
            self.stack.pop()
            self.w('\\end{%s}' % env)
            self.w(' ')
            self.word()
        elif k == 'ol_lines':
            # language commands on lines of their own, several on one line (such lines are removed from the text)
            l1 = self.other()
            self.w('\n')
            hard = r.random() < .3
            if hard:
                l0 = self.other()
                self.w('\\selectlanguage{%s}' % l0)
                self.stack[-1] = LMAP[l0]
                l1 = self.other()
            self.w('\\begin{otherlanguage}{%s}\n' % l1)
            self.stack.append(LMAP[l1])
            self.seq(r.randint(1, 4))
            self.stack.pop()
            l2 = self.other()
            self.w('\n\\end{otherlanguage}' + r.choice(['', ' ', '%\n']) + '\\begin{otherlanguage}{%s}\n' % l2)
            self.stack.append(LMAP[l2])
            self.seq(r.randint(1, 4))
            if r.random() < .4:
                cur = [x for x in LMAP if LMAP[x] != self.stack[-1]]
                self.w('\n\\foreignlanguage{%s}{}' % r.choice(cur))      # empty insertion alone on its line
            self.stack.pop()
            self.w('\n\\end{otherlanguage}\n')
            self.word()
        elif k == 'mbox_fl':
            # language command inside the text part of an inline formula
            lang = self.other()
            self.w(r.choice(['$a \\mbox{ ', '\\(b = \\mbox{']))
            self.w('\\foreignlanguage{%s}{' % lang)
            self.stack.append(LMAP[lang])
            for i in range(r.randint(1, 5)):
                if i:
                    self.w(' ')
                self.word()
            self.stack.pop()
            self.w('}')
            self.w(r.choice([' } c$', '}\\)']))
        elif k == 'sel':
            lang = self.other()
            self.w('\\selectlanguage{%s}' % lang)
            self.stack[-1] = LMAP[lang]
            self.w(' ')
            self.word()
        elif k == 'unk':
            self.w('\\zzfoo{')
            self.seq(r.randint(1, 3))
            self.w('}')
        elif k == 'decl':
            self.w(r.choice(['\\textcolor{red}{', '\\LTadd{', '\\emph{']))
            self.seq(r.randint(1, 3))
            if r.random() < .3:
                self.w(' \\LaTeX')       # a control word ends the argument
            self.w('}')
        elif k == 'item':
            self.w('\\begin{itemize}\\item ')
            self.seq(r.randint(1, 2))
            self.w(' \\end{itemize}')
        elif k == 'head':
            self.w('\n\n\\section{')
            if self.depth == 1 and len(self.stack) == 1 and not self.infoot and r.random() < .3:
                # a hard switch at the start of a heading of the main flow: holds from there on
                lang = self.other()
                self.w('\\selectlanguage{%s}' % lang)
                self.stack[-1] = LMAP[lang]
                self.kinds['head_sel'] += 1
            self.seq(r.randint(1, 2))
            self.w('}\n\n')
        elif k == 'foot':
            top = self.depth == 1 and len(self.stack) == 1      # called at the top level of the main flow
            self.infoot = True
            sv = self.stack
            self.stack = [sv[-1]]
            self.w('\\footnote{')
            self.seq(r.randint(1, 3))
            selx = None
            if r.random() < .35:
                # a hard switch at the top level of the footnote: holds for the rest of the footnote only
                selx = self.other()
                self.w(' \\selectlanguage{%s} ' % selx)
                self.stack[-1] = LMAP[selx]
                self.word()
                self.kinds['foot_sel'] += 1
            self.w('}')
            self.stack = sv
            self.infoot = False
            if selx and top and LMAP[selx] != self.stack[-1] and r.random() < .6:
                # ... and the main flow then switches to that very language
                self.w(' ')
                self.word()
                self.w(' \\selectlanguage{%s} ' % selx)
                self.stack[-1] = LMAP[selx]
                self.word()
                self.kinds['foot_sel_then_main_sel'] += 1
        self.depth -= 1

    def same_nested(self, wrap, lang):
        if not wrap:
            return self.chunk()
        self.kinds['probe_same_language_nested'] += 1
        if self.rnd.random() < .6:
            self.w('\\foreignlanguage{%s}{' % lang)
            self.chunk()
            self.w('}')
        else:
            self.w('\\begin{otherlanguage*}{%s}' % lang)
            self.chunk()
            self.w('\\end{otherlanguage*}')

    def probe(self):
        """clear-cut foreign insertion of k words strictly inside a sentence (top level, main flow)"""
        r = self.rnd
        self.w(' ')
        self.word()
        self.w(' ')
        wb = self.word()
        self.w(' ')
        k = r.randint(1, 6)
        lang = self.other()
        kind = r.choice(['fl', 'fl', 'ol', 'sel'])
        # one of the words may carry a switch to the language that is in force anyway
        nest = r.randrange(k) if r.random() < .3 else -1
        if kind == 'fl':
            self.w('\\foreignlanguage{%s}{' % lang)
            self.stack.append(LMAP[lang])
            for i in range(k):
                if i:
                    self.w(' ')
                self.same_nested(i == nest, lang)
            self.stack.pop()
            self.w('}')
        elif kind == 'ol':
            self.w('\\begin{otherlanguage*}{%s}' % lang)
            self.stack.append(LMAP[lang])
            for i in range(k):
                if i:
                    self.w(' ')
                self.same_nested(i == nest, lang)
            self.stack.pop()
            self.w('\\end{otherlanguage*}')
        else:
            self.w('\\selectlanguage{%s}' % lang)
            self.stack[-1] = LMAP[lang]
            k = 0
        self.w(' ')
        wc = self.word()
        self.w(' ')
        self.word()
        self.probes.append((wb, wc, k, kind))


class C12(core.Check):
    id = 'C12'
    level = 'exploration'
    technique = 'runtime monitor: language-stack reference model; unique words identify part, language and position; cross-run conservation'
    rule = ('random trees (depth <= 3) of \\foreignlanguage, otherlanguage(*), \\selectlanguage (top level of a flow and '
            'directly inside a \\foreignlanguage body), language commands on lines of their own (several per line), same-language nesting, footnotes, headings, items, unknown and '
            'declared macros around unique words; main languages %s, initial language optionally overridden by a babel '
            'package option; thresholds 0..5; clear-cut probes: k = 1..6 foreign words (or a \\selectlanguage) between '
            'two words of a sentence. Judged: each word in exactly one part, labelled with the model language, exact '
            'positions, probe joined by one language-change placeholder iff k <= threshold, same words as the '
            'single-language run. non-trivial = >= 2 languages in the document; distinct = distinct (seed, main '
            'language, threshold)' % MAINS)
    level_text = ('Exploration: the splitter is a heuristic state machine over a language stack; thousands of random '
                  'push / pop / hard-switch sequences per run are judged word by word against a stack model, and the '
                  'conservation relation to the single-language run is checked as a cross-run property.')
    level_note = ('The joining heuristic is judged only for clear-cut insertions strictly inside a sentence; '
                  '\\selectlanguage inside bare groups / footnotes is not generated (TeX grouping is not modelled by the filter).')
    design_ref = 'DESIGN.md section 4, C12'
    assumptions = ['\\selectlanguage only at the top level of a flow or directly inside a \\foreignlanguage body']

    def cases(self, tier, seed, shard, nshards):
        rnd = core.sub_rng('C12', seed, shard)
        n = (8000 if tier == 'quick' else 120000) // nshards
        for i in range(n):
            yield dict(s=rnd.getrandbits(48), main=rnd.choice(MAINS), T=rnd.randint(0, 5),
                       pkgopt=rnd.random() < .3)

    def judge(self, case):
        rnd = random.Random(case['s'])
        main = case['main']
        g = G(rnd, main)
        if case['pkgopt']:
            # main language = last language among the class options followed by the package options
            # (languages may be repeated; other options are ignored)
            names = ['german', 'english', 'french', 'russian', 'ngerman', 'american', 'italian']
            v = rnd.randrange(4)
            copts, popts = [], [rnd.choice(names)]
            if v >= 1:
                popts = [rnd.choice(names[:4]) for _ in range(rnd.randint(1, 3))]
            if v >= 2:
                copts = [rnd.choice(names[:4]) for _ in range(rnd.randint(1, 2))]
                if rnd.random() < .5 and copts:
                    popts.append(copts[0])           # repeated: listed twice with another language in between
                if rnd.random() < .3:
                    popts = []
            if v == 3:
                copts.insert(rnd.randrange(len(copts) + 1), '12pt')
                popts.insert(rnd.randrange(len(popts) + 1), 'shorthands=off')
            if copts:
                g.w('\\documentclass[%s]{article}\n' % ','.join(copts))
            g.w('\\usepackage%s{babel}\n' % ('[%s]' % ','.join(popts) if popts else ''))
            langs = [x for x in copts + popts if x in LMAP]
            if langs:
                g.stack[-1] = LMAP[langs[-1]]
            cnt_opts = 'babel_options_%d' % v
        else:
            g.w('\\usepackage{babel}\n')
        g.w('\\newcommand{\\yopt}[1][yoptd]{}\n')
        g.seq(rnd.randint(1, 6))
        for _ in range(rnd.randint(0, 2)):
            g.probe()
        g.w('\n')
        src = ''.join(g.buf)
        T = case['T']

        def mod(parms):
            parms.ml_continue_thresh = T
        r, err = tex.run(src, ml=True, lang=main, modify_parms=mod)
        (t1, p1), err1 = tex.run(src, lang=main)
        cnt = {'docs': 1, 'words': len(g.words), 'probes': len(g.probes), 'T_%d' % T: 1}
        if case['pkgopt']:
            cnt[cnt_opts] = 1
        for k, v in g.kinds.items():
            cnt['kind_' + k] = v
        detail = dict(src=src, parts={lg: [p[0] for p in r[lg]] for lg in r}, stderr=err, main=main, T=T)
        if err:
            return dict(ok=False, nt=True, key='stderr', cnt=cnt, obs=None, detail=detail)
        found = collections.defaultdict(list)
        for lang in r:
            for pi, (t, p) in enumerate(r[lang]):
                if len(t) != len(p):
                    return dict(ok=False, nt=True, key='length', cnt=cnt, obs=None, detail=detail)
                for m in re.finditer(r'w\d+z', t):
                    found[m.group(0)].append((lang, pi, list(p[m.start():m.end()]), m.start()))
        for w, st, lang in g.words:
            f = found.get(w, [])
            if len(f) != 1:
                detail.update(word=w, occurrences=len(f))
                return dict(ok=False, nt=True, key='word-lost' if not f else 'word-duplicated', cnt=cnt, obs=None,
                            detail=detail)
            if f[0][0] != lang:
                detail.update(word=w, labelled=f[0][0], model=lang)
                # mechanism: which command governs the word?
                return dict(ok=False, nt=True, key='mislabelled', cnt=cnt, obs=None, detail=detail)
            if f[0][2] != list(range(st + 1, st + 1 + len(w))):
                detail.update(word=w, map=f[0][2], want=st + 1)
                return dict(ok=False, nt=True, key='position', cnt=cnt, obs=None, detail=detail)
        for wb, wc, k, kind in g.probes:
            fb, fc = found[wb][0], found[wc][0]
            same = (fb[0], fb[1]) == (fc[0], fc[1])
            should_join = kind != 'sel' and k <= T
            detail.update(probe=dict(before=wb, after=wc, k=k, kind=kind, T=T))
            if should_join != same:
                return dict(ok=False, nt=True, key='probe:%s:%s' % (kind, 'not-joined' if should_join else 'joined'),
                            cnt=cnt, obs=None, detail=detail)
            if same:
                t = r[fb[0]][fb[1]][0]
                between = t[fb[3] + len(wb):fc[3]]
                coll = CHANGE[lang_key(fb[0])]
                if between.strip() not in coll:
                    detail['between'] = between
                    return dict(ok=False, nt=True, key='probe:placeholder', cnt=cnt, obs=None, detail=detail)
                cnt['probes_joined'] = cnt.get('probes_joined', 0) + 1
            else:
                cnt['probes_split'] = cnt.get('probes_split', 0) + 1
        w_ml = sorted(w for lang in r for t, p in r[lang] for w in re.findall(r'w\d+z', t))
        w_sl = sorted(re.findall(r'w\d+z', t1))
        if w_ml != w_sl:
            detail['single'] = t1
            return dict(ok=False, nt=True, key='conservation', cnt=cnt, obs=None, detail=detail)
        nl = len({lang for _, _, lang in g.words})
        if nl >= 2:
            cnt['docs_multi'] = 1
        return dict(ok=True, nt=nl >= 2, key=None, cnt=cnt,
                    obs=dict(src=tex.short(src, 300), parts={lg: [tex.short(p[0], 80) for p in r[lg]] for lg in r}))

    def quotas(self, tier):
        q = {'docs_multi': 3000, 'probes_joined': 300, 'probes_split': 300, 'babel_options_2': 100, 'babel_options_3': 100}
        for k in ('fl', 'ol', 'sel', 'same', 'sel_in', 'foot', 'head', 'decl', 'optend', 'ol_lines', 'compound', 'mbox_fl', 'probe_same_language_nested', 'foot_sel', 'foot_sel_then_main_sel', 'head_sel'):
            q['kind_' + k] = 200
        return q


CHECK = C12
