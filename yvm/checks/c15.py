"""C15 - any proofreader answer gives an in-file report or a clean error, no traceback.

Fault enumeration over a valid multi-match answer: every single-field deletion, every
type change of every field, value perturbations of offsets / lengths / strings, wrong
shapes, byte truncations, empty / non-JSON answers, non-zero exit, missing command;
x output modes.  Oracle: exit 0 and every reported location inside the file, or exit 1
with the shell's own diagnostic; never a Python traceback.
"""
import base64
import copy
import json
import random
import re
import os
import shutil
import tempfile
import xml.etree.ElementTree as ET

from .. import core, tex, shellrun, htmlreport

DOCS = [
    'Erste Zeile mit w1z und \\textbf{w2z}.\nZweite Zeile: äöü w3z \\footnote{Fuß w4z} Ende.\n\nDritter Absatz w5z.\n',
    'A w1z.\n',
    '\\section{Head w1z}\nText w2z $x+y$ w3z \\cite{k}.\n\\begin{itemize}\n\\item w4z 𝔸 w5z\n\\end{itemize}\nLast w6z',
    'w1z',
    'English w1z text \\foreignlanguage{german}{deutscher w2z Text mit mehr als zwei Wörtern} and more w3z.\n'
    '\\selectlanguage{russian} w4z w5z\n',
    ''.join('Line %d of a long paragraph with w%dz and some more words, %s\n' % (i, i, 'to be continued' if i % 5 else 'end.\n')
            for i in range(1, 19)),
    # a short chapter file that takes its glossary from a database much longer than itself
    '\\LTinput{big.glsdefs}\n\\Gls{ylab} is w1z. \\GLS{ylab} w2z \\Glspl{ylab}, \\gls{ylab} w3z \\Glsdesc{ylab}\n',
    # a macro with a default value that holds a long run of white space, used without the option in the last line
    '\\newcommand{\\yack}[1][Jane\n            Doe]{Thanks to #1 and w1z.}\nText w2z here.\n\\yack\n',
]
DOC_FILES = {6: {'big.glsdefs': '%% glossary database written by LaTeX\n' + '%% padding line of the database\n' * 60
                 + '\\gls@defglossaryentry{ylab}%\n{%\nname={yglsname},%\ntext={yglstext yglstwo},%\n'
                   'plural={yglsplural yglsmany},%\ndescription={yglsdescr},%\nfirst={yglsfirst}%\n}%\n'}}
MODES = ['plain', 'json', 'xml', 'xml-b', 'html', 'html-link', 'plain-ml', 'json-single', 'plain-ml1', 'xml-ml1']
TYPES = ['int', 'str', 'null', 'list', 'dict', 'bool', 'float', 'negint', 'bigstr', 'nan', 'inf', 'hugefloat']


def type_value(kind):
    return {'int': 7, 'str': 'x<y>&"z', 'null': None, 'list': [1, 'a'], 'dict': {'value': 3, 'a': {}}, 'bool': True,
            'float': 2.5, 'negint': -3, 'bigstr': 'line1\nline2\t<b>\x00"',
            # numbers that Python's JSON reader accepts and turns into floats that are not finite
            'nan': float('nan'), 'inf': float('-inf'), 'hugefloat': '@@HUGE@@'}[kind]


def base_answer(plain):
    """a valid LanguageTool-like answer with matches at characteristic places"""
    n = len(plain)

    def ctx(o, ln):
        b = max(0, o - 10)
        return {'text': plain[b:o + ln + 10].replace('\n', ' '), 'offset': o - b, 'length': ln}

    def mk(k, o, ln):
        return {'message': 'MSG%d' % k, 'shortMessage': 's', 'replacements': [{'value': 'r%d' % k}, {'value': 'q'}],
                'offset': o, 'length': ln, 'context': ctx(o, ln), 'sentence': 'S',
                'rule': {'id': 'RULE%d' % k, 'subId': '1', 'description': 'd', 'issueType': 'misspelling',
                         'urls': [{'value': 'https://example.org/%d' % k}],
                         'category': {'id': 'CAT', 'name': 'Cat'}}}
    ms = [mk(0, 0, 1)]
    m = re.search(r'w\d+z', plain)
    if m:
        ms.append(mk(1, m.start(), len(m.group(0))))
        ms.append(mk(2, m.start() + 1, 1))          # overlapping
    ms.append(mk(3, max(0, n // 2), 0))             # zero length
    ms.append(mk(4, n - 1, 1))                      # last character
    ms.sort(key=lambda x: x['offset'])
    return {'software': {'name': 'LanguageTool', 'version': '4.7'}, 'warnings': {'incompleteResults': False},
            'language': {'name': 'x', 'code': 'xx'}, 'matches': ms}


def paths(obj, prefix=()):
    """all paths to fields (dict keys and list indices)"""
    out = []
    if isinstance(obj, dict):
        for k, v in obj.items():
            out.append(prefix + (k,))
            out += paths(v, prefix + (k,))
    elif isinstance(obj, list):
        for i, v in enumerate(obj[:2]):
            out.append(prefix + (i,))
            out += paths(v, prefix + (i,))
    return out


def get(obj, path):
    for k in path:
        obj = obj[k]
    return obj


def setp(obj, path, val):
    get(obj, path[:-1])[path[-1]] = val


def delp(obj, path):
    del get(obj, path[:-1])[path[-1]]


def faults(answer, plain, step=1, layouts=60):
    """-> list of (fault id, bytes, exit status)"""
    out = []
    ps = [p for p in paths(answer) if p[0] == 'matches' and (len(p) < 2 or p[1] in (0, 1))] + [('matches',)]
    ps = list(dict.fromkeys(ps))
    for p in ps:
        a = copy.deepcopy(answer)
        delp(a, p)
        out.append(('delete:' + '.'.join(map(str, p)), json.dumps(a).encode(), 0))
        for t in TYPES:
            a = copy.deepcopy(answer)
            setp(a, p, type_value(t))
            out.append(('%s:%s:%s' % ('nonfinite' if t in ('nan', 'inf', 'hugefloat') else 'type', t, '.'.join(map(str, p))),
                        json.dumps(a).replace('"@@HUGE@@"', '1e999').encode(), 0))
    n = len(plain)
    vals = [-1, 0, n - 1, n, n + 1, n + 2, n + 3, 10 ** 6, -10 ** 6, -n]
    for fld in (('offset',), ('length',), ('context', 'offset'), ('context', 'length')):
        for v in vals:
            for mi in (0, 1, -1):
                a = copy.deepcopy(answer)
                setp(a, ('matches', mi) + fld, v)
                out.append(('value:%s=%s:m%d' % ('.'.join(fld), 'n%+d' % (v - n) if abs(v - n) <= 3 else v, mi),
                            json.dumps(a).encode(), 0))
    for s in ['a\nb', '<b>"&\'', '\x00', '', 'x' * 3000, '\u2028', ']]>', '--', '%s%d{}', '\\n\\',
              # backslash sequences as they appear in text taken from \verb material (re templates, format strings)
              'see \\emph here', 'a\\1b', '\\g<0>', '\\z\\d', '{0} {x} %(a)s',
              # half of a surrogate pair, as a UTF-16 based proofreader produces when it cuts a context excerpt
              # inside a character beyond the BMP
              'cut \ud835', '\udd38 rest']:
        for fld in (('message',), ('context', 'text'), ('replacements', 0, 'value'), ('rule', 'id'),
                    ('rule', 'subId'), ('rule', 'category', 'name'), ('rule', 'urls', 0, 'value')):
            a = copy.deepcopy(answer)
            setp(a, ('matches', 1) + fld, s)
            out.append(('string:%s:%s' % ('.'.join(map(str, fld)), repr(s)[:12]), json.dumps(a).encode(), 0))
    # context excerpts cut inside a character beyond the BMP, in front of / inside / behind the marked word
    # (own stratum: run in every output mode)
    for k, mm in enumerate(answer['matches'][:3]):
        cx = mm['context']
        for where, txt in (('front', '\udc4d' + cx['text']), ('behind', cx['text'] + '\ud83d'),
                           ('inside', cx['text'][:cx['offset']] + '\ud83d' + cx['text'][cx['offset'] + 1:])):
            a = copy.deepcopy(answer)
            a['matches'][k]['context'] = dict(cx, text=txt, offset=cx['offset'] + (1 if where == 'front' else 0))
            out.append(('surrogate:context-%s:m%d' % (where, k), json.dumps(a).encode(), 0))
    shapes = [[], {}, {'matches': {}}, {'matches': [1, 2]}, {'matches': [None]}, {'matches': [[]]}, {'matches': 'x'},
              {'matches': [{}]}, 5, 'str', None, {'matches': [{'offset': 1}]}, {'Matches': []}, [answer],
              {'matches': answer['matches'] * 40}]
    for i, sh in enumerate(shapes):
        out.append(('shape:%d' % i, json.dumps(sh).encode(), 0))
    # valid JSON nested deeper than the recursion limit of the decoder (lists, objects)
    out.append(('shape:deep-list', b'{"matches": ' + b'[' * 5000 + b']' * 5000 + b'}', 0))
    out.append(('shape:deep-object', b'{"matches": [' + b'{"a":' * 3000 + b'1' + b'}' * 3000 + b']}', 0))
    out.append(('shape:deep-root', b'[' * 20000 + b']' * 20000, 0))
    raw = json.dumps(answer, ensure_ascii=False).encode('utf-8')
    raw2 = json.dumps(dict(answer, matches=answer['matches'][:2] + [dict(answer['matches'][1], message='äöü𝔸')]),
                      ensure_ascii=False).encode('utf-8')
    for k in range(0, len(raw), step):
        out.append(('truncate:%d' % k, raw[:k], 0))
    for k in range(max(0, len(raw2) - 60), len(raw2)):
        out.append(('truncate-utf8:%d' % k, raw2[:k], 0))
    # valid answers with many layouts of matches: long matches over several lines with short ones inside or behind,
    # nested, identical, adjacent, zero-length, given in any order
    lr = random.Random(len(plain) * 7919 + 13)
    for k in range(layouts):
        a = copy.deepcopy(answer)
        ms = []
        for j in range(lr.randint(2, 8)):
            o = lr.randrange(0, max(1, n))
            ln = lr.choice([0, 1, 3, 8, lr.randint(0, n), lr.randint(0, n), n, 60, 200])
            ln = max(0, min(ln, n - o))
            mm = copy.deepcopy(answer['matches'][min(1, len(answer['matches']) - 1)])
            mm.update(offset=o, length=ln, message='LAY%d.%d' % (k, j))
            b = max(0, o - 10)
            mm['context'] = {'text': plain[b:o + ln + 10].replace('\n', ' '), 'offset': o - b, 'length': ln}
            ms.append(mm)
        if lr.random() < .8:
            ms.sort(key=lambda x: x['offset'])
        if lr.random() < .3:
            ms.append(copy.deepcopy(ms[0]))
        a['matches'] = ms
        out.append(('layout:%d' % k, json.dumps(a).encode(), 0))
    out.append(('garbage:text', b'Exception in thread "main" java.lang.OutOfMemoryError\n', 1))
    out.append(('garbage:binary', bytes(range(256)), 0))
    out.append(('garbage:bom', b'\xef\xbb\xbf' + raw, 0))
    out.append(('garbage:prefix', b'WARNING: something\n' + raw, 0))
    out.append(('garbage:suffix', raw + b'\ntrailing', 0))
    out.append(('exit:valid+status3', raw, 3))
    out.append(('valid', raw, 0))
    out.append(('command-missing', b'', 0))
    return out


class C15(core.Check):
    id = 'C15'
    level = 'fault_enumeration'
    technique = 'runtime monitor: fault enumeration over proofreader answers through the real shell; exit status / stderr / in-file location oracle'
    rule = ('for %d documents: a valid answer with matches at the first and last character, overlapping and zero-length '
            'matches is mutated: delete each field, change each field to each of %d types, perturb offset / length / '
            'context values (-1, 0, n-1, n, n+1.., +-10^6), hostile strings (line breaks, markup, NUL, very long) in '
            'every string field, wrong shapes, every byte truncation (also inside multi-byte characters), garbage, '
            'valid answers with random layouts of 2-8 matches (long over several lines, nested, identical, zero-length, unsorted), '
            'non-zero exit, missing command; x modes %s; valid answers also through `--as-server` (JSON reply, locations in the text). quick: a stratified sample; thorough: all. Judged: exit 0 and '
            'all reported locations inside the file, or exit 1 with the shell\'s own diagnostic; no traceback. '
            'non-trivial = a mutated (non-valid) answer; distinct = distinct (document, fault, mode)'
            % (len(DOCS), len(TYPES), MODES))
    level_text = ('Fault enumeration through the real process boundary: every single-field fault of a representative '
                  'answer in every output mode (thorough: ~10^4 shell runs); one unguarded access is invisible to tests '
                  'with valid data but shows on exactly one of these faults.')
    level_note = 'Astronomical integers (>= 10^9) and resource exhaustion are not generated; one representative answer per document.'
    design_ref = 'DESIGN.md section 4, C15'
    assumptions = ["the shell's own diagnostic is recognised by '*** ' ... 'internal error:' or 'problem:' on stderr with exit status 1"]

    nshards_quick = 16
    nshards_thorough = 64
    budget_quick = 900
    budget_thorough = 6000

    def setup(self, tier):
        self.tmp = tempfile.mkdtemp(prefix='yvm_c15_')
        self.cache = {}

    def teardown(self):
        shutil.rmtree(self.tmp, ignore_errors=True)

    def doc_faults(self, di):
        if di not in self.cache:
            src = DOCS[di]
            tex_ = src if src.endswith('\n') else src + '\n'
            cwd = os.getcwd()
            try:
                for name, content in DOC_FILES.get(di, {}).items():
                    with open(os.path.join(self.tmp, name), 'w') as f:
                        f.write(content)
                os.chdir(self.tmp)
                (plain, pmap), _ = tex.run(tex_, lang='en-GB', pack='*')
            finally:
                os.chdir(cwd)
            if di == 4:
                # multi-part document: the answer is built for the first submitted part
                r = tex.run(tex_, ml=True, lang='en-GB', pack='*')[0]
                plain = r['en-GB'][0][0]
            self.cache[di] = (tex_, plain, faults(base_answer(plain), plain, step=1 if di == 0 else 7))
        return self.cache[di]

    def cases(self, tier, seed, shard, nshards):
        self.cache = {}
        rnd = core.sub_rng('C15', seed)
        allc = []
        for di in range(len(DOCS)):
            tex_, plain, fl = self.doc_faults(di)
            for fi, (fid, data, ex) in enumerate(fl):
                if di >= 6 and fid.split(':')[0] not in ('layout', 'valid', 'value'):
                    # the two documents about locations near the end of the file: answers with valid fields only
                    continue
                for mode in MODES:
                    allc.append((di, fi, mode, fid.split(':')[0]))
        # server mode: valid answers (also with unusual strings) must give a JSON reply with locations in the text
        for di in (0, 2):
            tex_, plain, fl = self.doc_faults(di)
            for fi, (fid, data, ex) in enumerate(fl):
                st = fid.split(':')[0]
                if st in ('surrogate', 'valid') or (st == 'layout' and fi % 5 == 0) or (st == 'string' and fi % 3 == 0):
                    allc.append((di, fi, 'server', 'server'))
        if tier == 'quick':
            # stratified sample: per stratum a fixed share
            by = {}
            for c in allc:
                by.setdefault(c[3], []).append(c)
            pick = []
            share = {'delete': 160, 'type': 500, 'value': 200, 'string': 320, 'shape': 140, 'truncate': 260,
                     'truncate-utf8': 120, 'garbage': 40, 'exit': 8, 'valid': 16, 'command-missing': 8, 'layout': 540, 'surrogate': 300, 'server': 120,
                     'nonfinite': 240}
            for k, lst in sorted(by.items()):
                rnd.shuffle(lst)
                pick += lst[:share.get(k, 20)]
            allc = pick
        allc.sort()
        for i, (di, fi, mode, _) in enumerate(allc):
            if i % nshards == shard:
                yield dict(doc=di, fault=fi, mode=mode)

    # ------------------------------------------------------------------
    def judge(self, case):
        tex_, plain, fl = self.doc_faults(case['doc'])
        fid, data, ex = fl[case['fault']]
        mode = case['mode']
        src = DOCS[case['doc']]
        args = ['--language', 'en-GB']
        m = mode
        if mode == 'html-link':
            args += ['--output', 'html', '--link']
        elif mode == 'plain-ml':
            args += ['--output', 'plain', '--multi-language']
        elif mode in ('plain-ml1', 'xml-ml1'):
            # multi-language: the faulty answer is given to the first call only, later parts get a valid one
            args += ['--output', mode.split('-')[0], '--multi-language']
        elif mode == 'json-single':
            args += ['--output', 'json', '--single-letters', 'A|I', '--equation-punctuation', 'all']
        else:
            args += ['--output', mode]
        if mode == 'server':
            return self.judge_server(case, fid, data, tex_, src)
        args.append('f.tex')
        plan = {'mode': 'raw', 'data': base64.b64encode(data).decode(), 'exit': ex,
                'all_calls': not mode.endswith('ml1')}
        ltc = '/nonexistent/dir/languagetool-command' if fid == 'command-missing' else None
        files = {'f.tex': src}
        files.update(DOC_FILES.get(case['doc'], {}))
        r = shellrun.run_shell(args, files, plan, workdir=self.tmp, lt_command=ltc)
        stratum = fid.split(':')[0]
        cnt = {'fault_' + stratum: 1, 'mode_' + mode: 1}
        if r.timed_out:
            return dict(ok=True, nt=False, key=None, cnt={'timeouts': 1}, obs=None, harness_error='watchdog')
        detail = dict(fault=fid, mode=mode, doc=case['doc'], exit=r.rc, stderr=r.err[-1800:],
                      answer=data[:300].decode('utf-8', 'replace'))
        tb = 'Traceback (most recent call last)' in r.err
        if tb:
            exc = re.findall(r'^(\w+(?:Error|Exception|Exit|Interrupt)\w*)', r.err, re.M)
            fn = re.findall(r'File "[^"]*/(\w+)\.py", line \d+, in (\w+)', r.err)
            key = 'traceback:%s@%s.%s' % (exc[-1] if exc else '?', fn[-1][0] if fn else '?', fn[-1][1] if fn else '?')
            return dict(ok=False, nt=True, key=key, cnt=cnt, obs=None, detail=detail)
        if r.rc == 1:
            if re.search(r'\*\*\* .*(internal error|problem):', r.err):
                cnt['clean_errors'] = 1
                return dict(ok=True, nt=fid != 'valid', key=None, cnt=cnt,
                            obs=dict(fault=fid, mode=mode, outcome='clean error', stderr=tex.short(r.err, 120)))
            return dict(ok=False, nt=True, key='exit1-without-own-diagnostic', cnt=cnt, obs=None, detail=detail)
        if r.rc != 0:
            return dict(ok=False, nt=True, key='exit-status-%s' % r.rc, cnt=cnt, obs=None, detail=detail)
        if fid == 'valid':
            cnt['valid_answer_runs'] = 1
        # exit 0: every location inside the file
        out = r.out.decode('utf-8', 'replace')
        lines = tex_.split('\n')
        nl = len(lines) - 1 if tex_.endswith('\n') else len(lines)
        bad = None
        base = mode.split('-')[0] if mode in ('html-link', 'plain-ml', 'json-single', 'plain-ml1', 'xml-ml1') else mode
        try:
            if base == 'plain':
                for ln, col in re.findall(r'^\d+\.\) Line (\d+), column (\d+), Rule ID:', out, re.M):
                    ln, col = int(ln), int(col)
                    if not (1 <= ln <= max(nl, 1) and 1 <= col <= len(lines[ln - 1]) + 1):
                        bad = ('plain', ln, col)
            elif base == 'json':
                for mt in json.loads(out)['matches']:
                    o, n = mt['offset'], mt['length']
                    if not (isinstance(o, int) and isinstance(n, int) and 0 <= o <= len(tex_) and 0 <= o + n <= len(tex_)):
                        bad = ('json', o, n)
            elif base in ('xml', 'xml-b'):
                for e in ET.fromstring(out).findall('error'):
                    fy, fx, ty, tx = (int(e.get(k)) for k in ('fromy', 'fromx', 'toy', 'tox'))
                    enc = (lambda s: len(s.encode())) if base == 'xml-b' else len
                    if not (0 <= fy < max(nl, 1) and 0 <= ty < max(nl, 1) and 0 <= fx <= enc(lines[fy])
                            and 0 <= tx <= enc(lines[ty]) + 1):
                        bad = (base, fy, fx, ty, tx)
            elif base == 'html':
                rep = htmlreport.parse(out)
                for table, num, text, ids in rep.rows:
                    num = num.replace('\xa0', '').strip()
                    if num and not (num.isdecimal() and 1 <= int(num) <= max(nl, 1)):
                        bad = ('html-row', num)
        except Exception as e:      # noqa: report that cannot be read is a malformed report
            bad = ('unreadable-report', type(e).__name__, str(e)[:100])
        if bad and bad[0] == 'unreadable-report':
            # well-formedness of the report is not part of the statement (e.g. a NUL character in a message
            # cannot be represented in XML at all): counted, not judged
            cnt['unreadable_reports'] = 1
            bad = None
        if bad:
            detail.update(location=bad, report=out[:600])
            return dict(ok=False, nt=True, key='location-outside-file:' + str(bad[0]), cnt=cnt, obs=None, detail=detail)
        cnt['reports_in_file'] = 1
        if stratum == 'layout':
            cnt['layout_reports'] = 1
        return dict(ok=True, nt=fid != 'valid', key=None, cnt=cnt,
                    obs=dict(fault=fid, mode=mode, outcome='report', size=len(out)))

    def judge_server(self, case, fid, data, tex_, src):
        plan = {'mode': 'raw', 'data': base64.b64encode(data).decode(), 'exit': 0, 'all_calls': True}
        r = shellrun.run_server_request([], src, plan, workdir=self.tmp)
        cnt = {'mode_server': 1, 'fault_' + fid.split(':')[0]: 1}
        if r.timed_out and not ('Traceback (most recent call last)' in r.err and 'Address already in use' not in r.err):
            return dict(ok=True, nt=False, key=None, cnt={'timeouts': 1}, obs=None, harness_error='server did not come up')
        detail = dict(fault=fid, mode='server', doc=case['doc'], http=r.rc, stderr=r.err[-1500:], body=r.out[:300].decode('utf-8', 'replace'))
        if 'Traceback (most recent call last)' in r.err:
            exc = re.findall(r'^(\w+(?:Error|Exception)\w*)', r.err, re.M)
            return dict(ok=False, nt=True, key='server:traceback:%s' % (exc[-1] if exc else '?'), cnt=cnt, obs=None, detail=detail)
        try:
            ms = json.loads(r.out.decode('utf-8'))['matches']
        except Exception:       # noqa
            if re.search(r'\*\*\* .*(internal error|problem):', r.err):
                cnt['clean_errors'] = 1
                return dict(ok=True, nt=True, key=None, cnt=cnt, obs=dict(fault=fid, mode='server', outcome='clean error'))
            return dict(ok=False, nt=True, key='server:no-valid-reply', cnt=cnt, obs=None, detail=detail)
        n = len(src)
        for m in ms:
            o, ln = m.get('offset'), m.get('length')
            if not (isinstance(o, int) and isinstance(ln, int) and 0 <= o <= n + 1 and 0 <= o + ln <= n + 1):
                detail['location'] = [o, ln]
                return dict(ok=False, nt=True, key='server:location-outside-text', cnt=cnt, obs=None, detail=detail)
        cnt['server_replies'] = 1
        return dict(ok=True, nt=fid != 'valid', key=None, cnt=cnt, obs=dict(fault=fid, mode='server', matches=len(ms)))

    def quotas(self, tier):
        q = {'server_replies': 60, 'clean_errors': 300, 'reports_in_file': 100, 'valid_answer_runs': 8}
        for k in ('delete', 'type', 'value', 'string', 'shape', 'truncate', 'truncate-utf8', 'garbage', 'layout', 'surrogate', 'nonfinite'):
            q['fault_' + k] = 30
        for m in MODES:
            q['mode_' + m] = 60
        return q


CHECK = C15
