"""C03 - prose is conserved; hidden text never leaks (stream equality of DESIGN 3.2)."""
from .. import tex
from .doccommon import DocCheck


class C03(DocCheck):
    id = 'C03'
    which = 'c03'
    level = 'exploration'
    technique = 'runtime monitor: document reference model (expected character stream per text flow) vs real filter'
    rule = ('documents generated from a catalogue of ~58 construct kinds (focus subsets rotate), nesting depth <= 7 '
            '(quick) / 12 (thorough), layout sprinkler, languages en/de/ru, glossary file in 30% of the cases; every '
            'visible word is unique, hidden words carry the only capital Q. Judged: non-blank output stream == '
            'expected stream (main flow, then detached flows in expansion order), no hidden word, silent stderr. '
            'non-trivial = the document contains >= 3 visible words and >= 1 construct other than plain words; '
            'distinct = distinct generator parameters')
    level_text = ('Exploration: thousands of generated documents per run, each judged completely by an independent '
                  'document model (every expected output character, in order, per text flow). Covers interactions of '
                  'constructs (nesting, argument duplication and swapping, detached flows inside arguments) that '
                  'single-construct tests never combine. A universal over all documents can only be sampled.')
    level_note = ('Trusted: the generator-side semantics of each catalogue entry (written from the README / '
                  'list-of-macros.md); white space is not judged here (C05).')
    design_ref = 'DESIGN.md sections 3.1-3.3, 4 C03'
    assumptions = ['document semantics of the catalogue entries as documented in README / list-of-macros.md',
                   'side-effecting content (footnotes, formulas, definitions) is not placed inside headings and '
                   'duplicated arguments']

    def verdict(self, case, d, t, p, err, a, cnt):
        nt = len(d.words) >= 3 and any(k != 'word' for k in d.kinds)
        cnt['words_expected'] = len(d.words)
        cnt['detached_flows'] = len(d.flows)
        probs = list(a['c03'])
        if err and not probs:
            probs.append(('stderr-on-wellformed', dict(stderr=err[:500])))
        if probs:
            key, det = probs[0]
            key = key.split('/')[0] if key.startswith(('stream:', 'missing:', 'placeholder:')) else key
            if key.startswith(('stream:w:', 'missing:w:')):
                key = key.split(':')[0] + ':word@' + probs[0][0].split('/')[-1].split(':')[-1]
            return dict(ok=False, nt=True, key=key, cnt=cnt, obs=None,
                        detail=dict(problems=probs[:3], src=d.src, plain=t, stderr=err))
        return dict(ok=True, nt=nt, key=None, cnt=cnt,
                    obs=dict(src=tex.short(d.src, 300), plain=tex.short(t, 200)))


CHECK = C03
