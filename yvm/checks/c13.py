"""C13 - phrase replacement keeps text and position map consistent.

Oracle: reference implementation without `re`, run next to the real
utils.replace_phrases on texts with shuffled unique position lists, plus an
end-to-end relation through tex2txt(Options(repl=...)), single and multi-language.
"""
from .. import core, tex
from yalafi import utils


def isw(c):
    return c.isalnum() or c == '_'


def ref_replace(txt, pos, lines):
    """-> (txt, pos, tags); tags[i] in {'k', 's', 'e', 'l'}: kept / inserted by a
    shorter, equal, longer replacement (of the last rule touching it)"""
    tags = ['k'] * len(txt)
    for lin in lines:
        i = lin.find('#')
        if i >= 0:
            lin = lin[:i]
        ws = lin.split()
        if '&' in ws:
            k = ws.index('&')
            lhs = ws[:k]
            rhs = ' '.join(ws[k + 1:])
        else:
            lhs = ws
            rhs = ''
        if not lhs:
            continue
        need_b0 = lhs[0][0].isalpha()
        need_b1 = lhs[-1][-1].isalpha()
        n = len(txt)

        def match_at(i):
            j = i
            for wi, w in enumerate(lhs):
                if wi > 0:
                    k = j
                    while k < n and txt[k] in ' \t':
                        k += 1
                    if k < n and txt[k] == '\n':
                        k += 1
                        while k < n and txt[k] in ' \t':
                            k += 1
                    if k == j:
                        return None
                    j = k
                if not txt.startswith(w, j):
                    return None
                j += len(w)
            return j

        o_t = []
        o_p = []
        o_g = []
        i = 0
        while i < n:
            ok = None
            if not need_b0 or i == 0 or not isw(txt[i - 1]):
                ok = match_at(i)
                if ok is not None and need_b1 and ok < n and isw(txt[ok]):
                    ok = None
            if ok is None:
                o_t.append(txt[i])
                o_p.append(pos[i])
                o_g.append(tags[i])
                i += 1
                continue
            m_len = ok - i
            r_len = len(rhs)
            o_t.append(rhs)
            if r_len <= m_len:
                o_p += pos[i:i + r_len]
                o_g += ['s' if r_len < m_len else 'e'] * r_len
            else:
                o_p += pos[i:ok] + [pos[ok - 1]] * (r_len - m_len)
                o_g += ['l'] * r_len
            i = ok
        txt = ''.join(o_t)
        pos = o_p
        tags = o_g
    return txt, pos, tags


WORDS = ['so', 'dass', 'a', 'b', 'ab', 'a.b', 'x+y', '(c)', '$d', 'ä', '1a', 'a1', '_a', 'Ab', 'c*',
         '[e]', 'f|g', 'h\\', '^i', 'j?', 'ж', 'k{2}', 'é', 'bb', 'aa', 'a-b', '.', '&x', 'x&']
SEPS = [' ', ' ', '  ', '\n', ' \n ', '\n\n', '\t', '', ',', '. ', ' \t\n\t ', '\n \n', '\xa0', '-']


def gen_text(rnd):
    s = ''
    for _ in range(rnd.randint(1, 14)):
        s += rnd.choice(WORDS) + rnd.choice(SEPS)
    return s


def gen_line(rnd, txt=None):
    toks = txt.split() if txt else []
    if toks and rnd.random() < .6:
        k = rnd.randrange(len(toks))
        ln = ' '.join(t.replace('#', '') for t in toks[k:k + rnd.choice([1, 1, 2, 2, 3])] if t != '&')
    else:
        ln = ' '.join(rnd.choice(WORDS) for _ in range(rnd.choice([0, 1, 1, 1, 2, 2, 3])))
    r = rnd.random()
    if r < .8:
        ln += ' & ' + ' '.join(rnd.choice(WORDS + ['', 'longer', 'replacement']) for _ in range(rnd.randint(0, 3)))
    if rnd.random() < .2:
        ln += rnd.choice([' # comment & x', '# c', ' #'])
    if rnd.random() < .05:
        ln = rnd.choice(['', '# only a comment', '   ', '& rhs only', ' & '])
    return ln + '\n'


PROSEW = ['so', 'dass', 'a', 'b', 'ab', 'Ab', 'bb', 'aa', 'long', 'word', 'ä', 'ж',
          # letters written with a separate combining accent, a compatibility character: no Unicode NFC
          'a\u0308b', 'e\u0301', '\u212b', 'so\u0308']
PROSESEP = [' ', ' ', '  ', '\n', ' \n ', '\n\n', ', ', '. ']


class C13(core.Check):
    id = 'C13'
    level = 'exploration'
    technique = 'runtime monitor: regex-free reference implementation vs real replace_phrases; cross-run relation via tex2txt'
    rule = ('direct: random text over %d word shapes (regex metacharacters, digits, underscore, non-ASCII) and %d '
            'separators, position list = random permutation of unique integers, 1-4 rules with empty / shorter / '
            'equal / longer right-hand sides, comments, lines without left-hand side; judged: equal length, text and '
            'map equal to the reference. e2e: prose document filtered with and without repl (single and '
            'multi-language: only main-language parts change). non-trivial = at least one phrase was replaced '
            '(reference output differs from input); distinct = distinct (text, positions, rules)'
            % (len(WORDS), len(SEPS)))
    level_text = ('Exploration: tens of thousands (quick) to millions (thorough) of (text, shuffled unique position list, '
                  'rule list) triples are run through the real replace_phrases and compared with an independent '
                  'regex-free reference; unique positions make the origin of every output position unambiguous. '
                  'End-to-end relation through tex2txt in single and multi-language mode.')
    level_note = 'Trusted: the 60-line reference implementation; inputs are sampled, not enumerated.'
    design_ref = 'DESIGN.md section 4, C13'
    assumptions = ['reference written from the statement: word boundary where the phrase begins/ends with a letter, '
                   'white space between phrase words = blanks/tabs with at most one line break',
                   'white space between phrase words is blank, tab, line break (NBSP is not white space here)']

    def cases(self, tier, seed, shard, nshards):
        rnd = core.sub_rng('C13', seed, shard)
        n = (60000 if tier == 'quick' else 2000000) // nshards
        for i in range(n):
            if i % 12 == 11:
                words = []
                for _ in range(rnd.randint(3, 20)):
                    words.append(rnd.choice(PROSEW))
                    words.append(rnd.choice(PROSESEP))
                doc = ''.join(words)
                ml = rnd.random() < .5
                if ml:
                    k = rnd.randrange(0, len(doc))
                    ins = ' \\foreignlanguage{german}{%s} ' % ' '.join(rnd.choice(PROSEW)
                                                                      for _ in range(rnd.randint(1, 6)))
                    # insert at a separator only
                    k = doc.find(' ', k)
                    if k >= 0:
                        doc = doc[:k] + ins + doc[k:]
                yield dict(fam='e2e', doc=doc, ml=ml, lines=[gen_line(rnd, doc) for _ in range(rnd.randint(1, 3))],
                           lang=rnd.choice(['en', 'en-GB', 'ru', None, 'de', '']))
                if i % 96 == 11:
                    # the rules in a file read by the command-line filter (layout of the file's end, line ends)
                    yield dict(fam='file', doc=doc.replace('\\foreignlanguage{german}', ''),
                               lines=[gen_line(rnd, doc) for _ in range(rnd.randint(1, 4))],
                               end=rnd.choice(['nl', 'none', 'none', 'blank', 'crlf']))
                continue
            t = gen_text(rnd)
            p = list(range(1000, 1000 + len(t)))
            rnd.shuffle(p)
            yield dict(fam='direct', txt=t, pos=p, lines=[gen_line(rnd, t) for _ in range(rnd.randint(1, 4))])

    def judge(self, case):
        if case['fam'] == 'direct':
            t, p, lines = case['txt'], case['pos'], case['lines']
            a = utils.replace_phrases(t, list(p), list(lines))
            rt, rp, tags = ref_replace(t, list(p), lines)
            cnt = {'direct': 1}
            nt = rt != t
            if nt:
                for g in set(tags):
                    cnt['rule_kind_' + {'k': 'kept', 's': 'shorter', 'e': 'equal', 'l': 'longer'}[g]] = 1
                if len(rt) < len(t):
                    cnt['text_got_shorter'] = 1
            at, ap = a
            if len(at) != len(ap):
                return dict(ok=False, nt=True, key='direct:length', cnt=cnt, obs=None,
                            detail=dict(got=[at, ap], want=[rt, rp]))
            if at != rt:
                return dict(ok=False, nt=True, key='direct:text', cnt=cnt, obs=None,
                            detail=dict(got=[at, ap], want=[rt, rp]))
            if list(ap) != rp:
                i = next(i for i in range(len(rp)) if ap[i] != rp[i])
                return dict(ok=False, nt=True, key='direct:map:' + tags[i], cnt=cnt, obs=None,
                            detail=dict(got=[at, list(ap)], want=[rt, rp], first_diff=i))
            return dict(ok=True, nt=nt, key=None, cnt=cnt,
                        obs={'out': tex.short(at, 80), 'map': list(ap)[:30]})
        if case['fam'] == 'file':
            return self.judge_file(case)
        # end to end
        doc, lines, ml, lang = case['doc'], case['lines'], case['ml'], case['lang']
        cnt = {'e2e_ml' if ml else 'e2e_single': 1}
        base, e0 = tex.run(doc, ml=ml, lang=lang)
        got, e1 = tex.run(doc, ml=ml, lang=lang, repl=list(lines))
        nt = False
        if not ml:
            rt, rp, _ = ref_replace(base[0], list(base[1]), lines)
            nt = rt != base[0]
            if (got[0], list(got[1])) != (rt, rp):
                return dict(ok=False, nt=True, key='e2e:single', cnt=cnt, obs=None,
                            detail=dict(got=got, want=[rt, rp]))
        else:
            if sorted(base) != sorted(got):
                return dict(ok=False, nt=True, key='e2e:ml-languages', cnt=cnt, obs=None,
                            detail=dict(got=got, base=base))
            for lg in base:
                if len(base[lg]) != len(got[lg]):
                    return dict(ok=False, nt=True, key='e2e:ml-parts', cnt=cnt, obs=None,
                                detail=dict(got=got, base=base))
                for bp, gp in zip(base[lg], got[lg]):
                    if lg == (lang or ''):
                        rt, rp, _ = ref_replace(bp[0], list(bp[1]), lines)
                        nt = nt or rt != bp[0]
                    else:
                        rt, rp = bp[0], list(bp[1])
                        cnt['e2e_ml_foreign_part_unchanged'] = 1
                    if (gp[0], list(gp[1])) != (rt, rp):
                        return dict(ok=False, nt=True,
                                    key='e2e:ml-main' if lg == (lang or '') else 'e2e:ml-foreign-part-changed',
                                    cnt=cnt, obs=None, detail=dict(got=got, base=base, lang=lg))
        if nt:
            cnt['e2e_replaced'] = 1
        return dict(ok=True, nt=nt, key=None, cnt=cnt, obs={'out': tex.short(got, 120)})

    def judge_file(self, case):
        import os
        import subprocess
        import tempfile
        from .. import env
        doc, lines, end = case['doc'], case['lines'], case['end']
        cnt = {'file_cases': 1, 'file_end_' + end: 1}
        body = ''.join(lines)
        if end == 'none':
            body = body.rstrip('\n')
            if not body.strip():
                body = 'zzz & yyy'
        elif end == 'blank':
            body += '\n\n'
        elif end == 'crlf':
            body = body.replace('\n', '\r\n')
        model_lines = body.splitlines()
        with tempfile.TemporaryDirectory(prefix='yvm_c13_') as d:
            with open(os.path.join(d, 'in.tex'), 'w', encoding='utf-8', newline='') as f:
                f.write(doc)
            with open(os.path.join(d, 'r.txt'), 'w', encoding='utf-8', newline='') as f:
                f.write(body)
            res = []
            for extra in ([], ['--repl', 'r.txt']):
                pr = subprocess.run([env.PY, '-m', 'yalafi', '--pack', '', '--nums', 'n.txt'] + extra + ['in.tex'],
                                    capture_output=True, timeout=120, cwd=d, env=env.child_env())
                if pr.returncode != 0:
                    return dict(ok=False, nt=True, key='file:exit%d' % pr.returncode, cnt=cnt, obs=None,
                                detail=dict(doc=doc, rules=body, stderr=pr.stderr.decode('utf-8', 'replace')[-600:]))
                nums = [int(x.rstrip('+')) for x in open(os.path.join(d, 'n.txt')).read().split()]
                res.append((pr.stdout.decode('utf-8'), nums))
        (t0, p0), (t1, p1) = res
        rt, rp, _ = ref_replace(t0, list(p0), [ln + '\n' for ln in model_lines])
        if (t1, p1) != (rt, rp):
            return dict(ok=False, nt=True, key='file:' + ('text' if t1 != rt else 'map'), cnt=cnt, obs=None,
                        detail=dict(doc=doc, rules=body, got=[t1, p1], want=[rt, rp], end=end))
        if rt != t0:
            cnt['file_replaced'] = 1
        return dict(ok=True, nt=rt != t0, key=None, cnt=cnt, obs=dict(rules=tex.short(body, 80), out=tex.short(t1, 80)))

    def quotas(self, tier):
        return {'rule_kind_shorter': 500, 'rule_kind_equal': 100, 'rule_kind_longer': 500,
                'e2e_replaced': 100, 'e2e_ml_foreign_part_unchanged': 50, 'file_cases': 300, 'file_end_none': 80, 'file_replaced': 100}


CHECK = C13
