"""Shared workload of C02 / C03 / C04: generated documents judged by stream alignment."""
import os
import shutil
import tempfile

from .. import core, tex, align
from ..gen import docs as gdocs

FOCUS_SETS = [
    None, None, None,
    ['word', 'usermac', 'usermac2', 'usermacopt', 'usermacoptonly', 'defmac', 'twice_ext', 'verb', 'atom', 'comment', 'footnote'],
    ['word', 'itemize', 'enumerate', 'itemlab', 'section', 'proof', 'theorem', 'label', 'comment', 'par'],
    ['word', 'inline', 'display', 'mathtext', 'ref', 'cite', 'citeopt', 'footnote', 'usermac'],
    ['word', 'verb', 'verbatim', 'comment', 'skip', 'ltskip', 'label', 'vanish', 'unk', 'atom', 'accent'],
    ['word', 'footnote', 'caption', 'footcite', 'textcolor', 'unkarg', 'unkenv', 'figure', 'tabular', 'usermac2'],
    ['word', 'gls', 'usermacopt', 'usermacoptonly', 'latexname', 'textbackslash', 'ref', 'cite', 'theorem', 'proof', 'enumerate'],
    ['word', 'tikz', 'lstlisting', 'removed_ext', 'skip', 'comment', 'minipage', 'par', 'newline', 'quad', 'hspace'],
    ['word', 'atom', 'accent', 'group', 'emph', 'unkarg2', 'href', 'texorpdf', 'framebox', 'ltadd', 'ltalter'],
]


class DocCheck(core.Check):
    """base: cases are parameters of the deterministic document generator"""
    which = 'c03'
    n_quick = 6000
    n_thorough = 150000

    def setup(self, tier):
        self.tmp = tempfile.mkdtemp(prefix='yvm_doc_')
        self.gls = os.path.join(self.tmp, 'y.glsdefs')
        with open(self.gls, 'w') as f:
            f.write(gdocs.GLSDEFS)

    def teardown(self):
        shutil.rmtree(self.tmp, ignore_errors=True)

    def cases(self, tier, seed, shard, nshards):
        rnd = core.sub_rng(self.id, seed, shard)
        n = (self.n_quick if tier == 'quick' else self.n_thorough) // nshards
        for i in range(n):
            focus = (i + shard) % len(FOCUS_SETS)
            pack = rnd.choice(gdocs.PACK_CHOICES)
            if FOCUS_SETS[focus] and ('removed_ext' in FOCUS_SETS[focus] or 'twice_ext' in FOCUS_SETS[focus]):
                pack = '*,.yvm.ext'
            yield dict(docseed=rnd.getrandbits(48), lang=rnd.choice(['en', 'en', 'en', 'de', 'ru']),
                       focus=focus, size=rnd.randint(2, 9),
                       depth=rnd.choice([3, 5, 5, 7] if tier == 'quick' else [3, 5, 7, 9, 12]),
                       gls=rnd.random() < .3, route=rnd.choice(['doc', 'doc', 'doc', 'defs']),
                       endp=rnd.choice([0, 1, 2, 3]), pack=pack)

    def build(self, case):
        import random
        rnd = random.Random(case['docseed'])
        d = gdocs.random_document(rnd, size=case['size'], lang=case['lang'], kinds=FOCUS_SETS[case['focus']],
                                  max_depth=case['depth'], glossary_file=self.gls if case['gls'] else None,
                                  end_pressure=case['endp'], pack=case['pack'])
        return d

    def run_doc(self, case):
        d = self.build(case)
        opts = dict(lang=case['lang'], pack=d.pack)
        src = d.src
        (t, p), err = tex.run(src, **opts)
        a = align.align(d, t, p, case['lang'])
        return d, t, p, err, a

    def judge(self, case):
        d, t, p, err, a = self.run_doc(case)
        cnt = {'kind_' + k: v for k, v in d.kinds.items()}
        cnt['documents'] = 1
        cnt['aligned_documents' if a['aligned'] else 'unaligned_documents'] = 1
        return self.verdict(case, d, t, p, err, a, cnt)

    def quotas(self, tier):
        q = {'kind_' + k: 20 for k in gdocs.ALL_KINDS}
        return q
