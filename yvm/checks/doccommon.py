"""Shared workload of C02 / C03 / C04: generated documents judged by stream alignment."""
import os
import shutil
import tempfile

from .. import core, tex, align
from ..gen import docs as gdocs

FOCUS_SETS = [
    None, None, None,
    ['word', 'usermac', 'usermac2', 'usermacopt', 'usermacoptonly', 'usermacml', 'usermacverb', 'label', 'defmac', 'defbymac', 'twice_ext', 'verb', 'atom', 'comment', 'footnote'],
    ['word', 'itemize', 'enumerate', 'itemlab', 'section', 'usersec', 'proof', 'theorem', 'label', 'comment', 'par'],
    ['word', 'inline', 'display', 'mathtext', 'ref', 'cite', 'citeopt', 'footnote', 'usermac'],
    ['word', 'verb', 'verbatim', 'comment', 'skip', 'ltskip', 'label', 'vanish', 'unk', 'atom', 'accent'],
    ['word', 'footnote', 'caption', 'footcite', 'tikzin', 'textcolor', 'unkarg', 'unkenv', 'figure', 'tabular', 'usermac2'],
    ['word', 'gls', 'glsentry', 'cref', 'usermacopt', 'usermacoptonly', 'latexname', 'textbackslash', 'ref', 'cite', 'theorem', 'proof', 'enumerate'],
    ['word', 'tikz', 'lstlisting', 'removed_ext', 'skip', 'comment', 'minipage', 'par', 'newline', 'quad', 'hspace'],
    ['word', 'atom', 'accent', 'group', 'emph', 'unkarg2', 'href', 'url', 'texorpdf', 'framebox', 'ltadd', 'ltalter'],
]


class DocCheck(core.Check):
    """base: cases are parameters of the deterministic document generator"""
    which = 'c03'
    n_quick = 9600
    n_thorough = 150000

    def setup(self, tier):
        self.tmp = tempfile.mkdtemp(prefix='yvm_doc_')
        self.gls = os.path.join(self.tmp, 'y.glsdefs')
        with open(self.gls, 'w') as f:
            f.write(gdocs.GLSDEFS)
        self.sed = os.path.join(self.tmp, 'y.sed')
        with open(self.sed, 'w') as f:
            f.write(gdocs.CREFSED)

    def teardown(self):
        shutil.rmtree(self.tmp, ignore_errors=True)

    def cases(self, tier, seed, shard, nshards):
        rnd = core.sub_rng(self.id, seed, shard)
        n = (self.n_quick if tier == 'quick' else self.n_thorough) // nshards
        for i in range(n):
            focus = (i + shard) % len(FOCUS_SETS)
            pack = rnd.choice(gdocs.PACK_CHOICES)
            if FOCUS_SETS[focus] and ('removed_ext' in FOCUS_SETS[focus] or 'twice_ext' in FOCUS_SETS[focus]):
                pack = '*,.yvm.ext'
            if FOCUS_SETS[focus] and 'cref' in FOCUS_SETS[focus] and rnd.random() < .7:
                pack = '*'
            yield dict(docseed=rnd.getrandbits(48), lang=rnd.choice(['en', 'en', 'en', 'de', 'ru']),
                       focus=focus, size=rnd.randint(2, 9),
                       depth=rnd.choice([3, 5, 5, 7] if tier == 'quick' else [3, 5, 7, 9, 12]),
                       gls=rnd.random() < .3, route=rnd.choice(['doc', 'doc', 'doc', 'defs', 'ltinput']),
                       ml=rnd.random() < .15, seqs=rnd.random() < .15, repl=rnd.random() < .15,
                       dcls=rnd.choice(['', '', '', 'article', 'scrartcl', 'book']),
                       endp=rnd.choice([0, 1, 2, 3]), pack=pack)

    def build(self, case):
        import random
        rnd = random.Random(case['docseed'])
        d = gdocs.random_document(rnd, size=case['size'], lang=case['lang'], kinds=FOCUS_SETS[case['focus']],
                                  max_depth=case['depth'], glossary_file=self.gls if case['gls'] else None,
                                  end_pressure=case['endp'], pack=case['pack'], cref_file=self.sed,
                                  max_nodes=250 if case['depth'] <= 7 else 700)
        return d

    def run_doc(self, case):
        """-> doc, plain, map (in coordinates of the complete generated source), stderr, alignment.
        The preamble (user macro definitions) is supplied by one of three routes: in the document, through the
        definitions option, or in a file read by \\LTinput; 1 in 7 documents run in multi-language mode (no
        language commands: the single part must equal the single-language result)"""
        d = self.build(case)
        opts = dict(lang=case['lang'], pack=d.pack)
        route = case.get('route', 'doc')
        src = d.src
        shift = 0
        if route == 'defs':
            opts['defs'] = d.src[:d.body_start]
            src = d.src[d.body_start:]
            shift = d.body_start
        elif route == 'ltinput':
            fn = os.path.join(self.tmp, 'pre%d.tex' % (case['docseed'] % 7))
            with open(fn, 'w', encoding='utf-8') as f:
                f.write(d.src[:d.body_start])
            pre = '\\LTinput{%s}\n' % fn
            src = pre + d.src[d.body_start:]
            shift = d.body_start - len(pre)
        if case.get('seqs'):
            opts['seqs'] = True
        if case.get('dcls'):
            opts['dcls'] = case['dcls']
        ml = bool(case.get('ml'))
        r, err = tex.run(src, ml=ml, **opts)
        if ml:
            parts = [p for lg in r for p in r[lg]]
            t = ''.join(p[0] for p in parts)
            p = [q for part in parts for q in part[1]]
            if len(r) > 1:
                err += 'multi-language mode: document without language commands split over %r\n' % sorted(r)
        else:
            t, p = r
        p = [q + shift for q in p]
        a = align.align(d, t, p, case['lang'])
        if case.get('repl') and not ml:
            # the same document with a phrase-replacement list: the result must be the replacement (reference
            # implementation of C13) applied to the result without it: copied text keeps its exact offsets
            from .c13 import ref_replace
            rules = ['ybodyb & \n', 'ybodyc & ybodyclonger yx\n', 'ybodyd & yd\n', '# comment\n', 'ybodya ybodya & Z\n']
            (t2, p2), err2 = tex.run(src, repl=rules, **opts)
            rt, rp, _ = ref_replace(t, [q - shift for q in p], rules)
            if (t2, list(p2)) != (rt, rp) or err2 != err:
                i = next((i for i in range(min(len(t2), len(rt))) if t2[i] != rt[i] or p2[i] != rp[i]),
                         min(len(t2), len(rt)))
                prob = ('repl-option', dict(first_difference=i, got=[t2[max(0, i - 20):i + 20], list(p2[max(0, i - 5):i + 5])],
                                            want=[rt[max(0, i - 20):i + 20], rp[max(0, i - 5):i + 5]],
                                            lengths=[len(t2), len(p2), len(rt)]))
                a['c02'].insert(0, prob)
                a['c03'].insert(0, prob)
        return d, t, p, err, a

    def judge(self, case):
        d, t, p, err, a = self.run_doc(case)
        cnt = {'kind_' + k: v for k, v in d.kinds.items()}
        cnt['documents'] = 1
        cnt['route_' + case.get('route', 'doc')] = 1
        if case.get('ml'):
            cnt['ml_mode_documents'] = 1
        if case.get('repl'):
            cnt['repl_option_documents'] = 1
        cnt['aligned_documents' if a['aligned'] else 'unaligned_documents'] = 1
        return self.verdict(case, d, t, p, err, a, cnt)

    def quotas(self, tier):
        q = {'kind_' + k: 20 for k in gdocs.ALL_KINDS}
        q.update({'route_doc': 500, 'route_defs': 200, 'route_ltinput': 200, 'ml_mode_documents': 200, 'repl_option_documents': 200})
        return q
