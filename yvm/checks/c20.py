"""C20 - the shell's own checks mark the offending characters and honour accepted patterns.

Oracle: regex-free reference rules for --single-letters (set equality of offsets) and
--equation-punctuation (soundness of every message), plus agreement of offset / length
with the context excerpt; direct calls of yalafi.shell.checks and end-to-end runs of the
real shell (JSON output, --plain-input, stub proofreader).
"""
import json
import os
import random
import re
import shutil
import subprocess
import tempfile

from .. import core, env, tex
from yalafi.shell import checks as ychecks
from yalafi import parameters


class Cmd:
    pass


def isw(c):
    return c.isalnum() or c == '_'


def isletter(c):
    return isw(c) and c not in '_' and not c.isdigit() and not c.isnumeric()


def occurrences(pat, t):
    """all (overlapping) occurrences of the literal pattern, with the boundary rule at a letter"""
    out = []
    i = t.find(pat)
    while i >= 0:
        j = i + len(pat)
        ok = True
        if pat[0].isalpha() and i > 0 and isw(t[i - 1]):
            ok = False
        if pat[-1].isalpha() and j < len(t) and isw(t[j]):
            ok = False
        if ok:
            out.append((i, j))
        i = t.find(pat, i + 1)
    return out


def model_single(t, accept):
    pats = [s.replace('~', '\xa0').replace('\\,', '\u202f') for s in accept.split('|') if s]
    cov = set()
    for p in pats:
        for i, j in occurrences(p, t):
            cov.update(range(i, j))
    res = []
    for i, c in enumerate(t):
        if isletter(c) and (i == 0 or not isw(t[i - 1])) and (i + 1 == len(t) or not isw(t[i + 1])) and i not in cov:
            res.append(i)
    return res


AL = ['a', 'b', 'I', 'x', 'ä', 'я', 'ab', '1', '_', '.', ',', ' ', ' ', '\n', '\xa0', '\u202f', 'e.g.', 'z.B.', 'z.\u202fB.', 'e.\u202fg.', 'z.\xa0B.', '-',
      '(', ')', 'B-B-B', 'U-U-U', ';', ':', 'a.', 'x', 'y', '2x', 'x2', 'é', 'ǅ', 'e', 'g', '\t', 'a b c', 'x y z',
      'm.\u202fa.\u202fW.', 'e. g. h.', 'a\xa0b\xa0x', 'c', 'W', 'z', 'h',
      # characters outside the Basic Multilingual Plane (two UTF-16 code units each)
      '\U0001d538', '\U0001f600 ']
ACC = ['A|a|I|e.g.|i.e.', 'a|z.~B.|x', 'a b|b c', '', 'I', 'e.g.|g', 'a.|.b', 'x~y|a', 'z.|B.', 'e.|g.', 'a||b',
       'z.\\,B.|e.\\,g.', 'x|y|', 'ä|я', 'a b c|c', 'e.g.|e. g.', 'a b c|b', 'b|a b c', 'm.\\,a.\\,W.|a', 'x y z|y|z',
       'a b|a b c|c', 'e. g. h.|g', 'a~b~x|b']


def gen_text(rnd, n=None):
    return ''.join(rnd.choice(AL) for _ in range(n or rnd.randint(1, 18)))


def placeholders(lang, multi=False):
    lc = parameters.Parameters(lang).lang_context
    return dict(display=list(lc.math_repl_display), inline=list(lc.math_repl_inline),
                change=list(lc.lang_change_repl))


EQ_AL = ['{D}', '{I}', '{D}', '{I}', '{C}', '.', ',', ';', ':', ' ', ' ', '\n', 'word', 'Word', 'a', 'The', 'und', '1', '(',
         '\n\n', 'x', 'Ä', 'ärger', '  ', '!', '-']


def gen_eq_text(rnd, ph):
    out = ''
    for _ in range(rnd.randint(1, 14)):
        a = rnd.choice(EQ_AL)
        if a == '{D}':
            a = rnd.choice(ph['display'])
        elif a == '{I}':
            a = rnd.choice(ph['inline'])
        elif a == '{C}':
            a = rnd.choice(ph['change'])     # language-change placeholder: never an equation
        out += a
    return out


def gen_shelltex(rnd, cnt):
    """LaTeX document for multi-language runs: text regions (offset, text) over a small alphabet with isolated
    letters, separated by language commands; displayed equations (start, end, badly punctuated)
    -> (source, regions, equations)"""
    AL2 = ['a', 'b', 'I', 'x', 'word', 'Wort', '1', '.', ',', ' ', ' ', ' ', '\n', 'e.g.', '-', '(', ')', ';', 'ab', 'y',
           'K', 'text', 'ä', 'z']
    parts = []
    pos = [0]
    regions = []
    eqs = []        # (start, end, bad)

    def emit(s):
        parts.append(s)
        pos[0] += len(s)

    def region(a, b, reuse=None):
        r = reuse or a + ' ' + ''.join(rnd.choice(AL2) for _ in range(rnd.randint(3, 14))) + ' ' + b
        r = re.sub(r'\n\s*\n', '\n', r)
        regions.append((pos[0], r))
        emit(r)
        return r
    blocks = []

    def equation():
        bad = rnd.random() < .5
        emit(' Then\n')
        st = pos[0]
        emit('\\[ a=b' + ('' if bad else '.') + ' \\]')
        eqs.append((st, pos[0], bad))
        emit('\n' + ('Next' if bad else 'next') + ' we go on.\n')
    emit('\\usepackage{babel}\n')
    region('Start', 'end.')
    for k in range(rnd.randint(1, 4)):
        kind = rnd.choice(['env', 'env', 'env', 'select', 'foreign'])
        lg = rnd.choice(['german', 'french', 'english', 'ngerman'])     # (placeholder collections as for the main language)
        if kind == 'env' and blocks and rnd.random() < .5:
            # the very same passage once more: an identical part is submitted twice in one run
            lg, r = rnd.choice(blocks)
            emit('\n\\begin{otherlanguage}{%s}\n' % lg)
            region('', '', reuse=r)
            emit('\n\\end{otherlanguage}\n')
            cnt['shelltex_repeated_part'] = 1
        elif kind == 'env':
            emit('\n\\begin{otherlanguage}{%s}\n' % lg)
            r = region('Anfang', 'und Ende hier.')
            if rnd.random() < .5:
                equation()
            else:
                blocks.append((lg, r))
            emit('\n\\end{otherlanguage}\n')
        elif kind == 'select':
            emit('\n\n\\selectlanguage{%s}\n\n' % lg)
        else:
            emit('\n\\foreignlanguage{%s}{' % lg)
            region('Anfang', 'und Ende hier.')
            emit('}\n')
        region('Again', 'done.')
        if rnd.random() < .4:
            equation()
    emit('\n')
    src = ''.join(parts)
    return src, regions, eqs


class C20(core.Check):
    id = 'C20'
    level = 'exploration'
    technique = 'runtime monitor: regex-free reference rules vs real checks.*; offset / length / context agreement; real shell end to end'
    rule = ('single: texts of 1-18 atoms over %d shapes (ASCII / accented / Cyrillic / title-case letters, digits, '
            'superscript digit, underscore, punctuation, placeholders, NBSP, narrow NBSP, tab, line breaks) x %d accept '
            'lists (multi-character, overlapping and adjacent patterns, ~ and \\, forms, empty entries): set of message '
            'offsets == model set, each once, length 1. eqpunct: texts over placeholders of the selected mode / other '
            'mode, punctuation, words; modes displayed / inline / all and abbreviations; every message must start at '
            'a placeholder of the mode that is followed neither by a full stop nor (after optional , ; :) by a '
            'lower-case word or another placeholder. both: plain[offset:offset+length] is what the context marks. '
            'shell: the same through `python -m yalafi.shell --plain-input --output json` incl. trailing || accept '
            'lists; and LaTeX input in multi-language mode with several separately checked parts (messages in the second '
            'and later parts must select the letter / equation in the file). non-trivial = at least one message expected or produced; distinct = distinct (text, options)'
            % (len(AL), len(ACC)))
    level_text = ('Exploration: both checks are regular-expression scans; their correctness is a statement over all '
                  'texts, sampled here 10^4 - 10^6 times against regex-free reference rules, including matches within '
                  '45 characters of either end (context window).')
    level_note = 'Equation punctuation is judged for soundness only (as stated); an invalid mode string is a usage error outside the quantifier.'
    design_ref = 'DESIGN.md section 4, C20'
    assumptions = ['a letter is a word character that is neither digit, numeric nor underscore',
                   'accepted patterns use the same boundary rule as the check (word boundary where the pattern begins / ends with a letter)']

    def setup(self, tier):
        self.tmp = tempfile.mkdtemp(prefix='yvm_c20_')
        self.ph = {lg: placeholders(lg) for lg in ('en', 'de', 'ru')}
        self.stub = os.path.join(self.tmp, 'stub.py')
        with open(self.stub, 'w') as f:
            f.write('import sys\nsys.stdin.buffer.read()\nsys.stdout.write(\'{"matches": []}\')\n')

    def teardown(self):
        shutil.rmtree(self.tmp, ignore_errors=True)

    def cases(self, tier, seed, shard, nshards):
        rnd = core.sub_rng('C20', seed, shard)
        n = (200000 if tier == 'quick' else 3000000) // nshards
        nsh = (320 if tier == 'quick' else 3000) // nshards
        for i in range(n):
            if i % 3 == 2:
                lang = rnd.choice(['en', 'de', 'ru'])
                yield dict(fam='eq', text=gen_eq_text(rnd, self.ph_of(lang)), lang=lang,
                           mode=rnd.choice(['displayed', 'inline', 'all', 'd', 'i', 'a', 'dis', 'inl']))
            else:
                t = gen_text(rnd)
                if rnd.random() < .15:
                    t = gen_text(rnd, 30) + 'word ' * 12 + gen_text(rnd, 6)     # far from the text start
                yield dict(fam='single', text=t, accept=rnd.choice(ACC))
        for i in range(nsh):
            lang = rnd.choice(['en', 'de', 'ru'])
            ph = self.ph_of(lang)
            # (often: a placeholder at the end of a line, the sentence goes on in the next line with a capital)
            tail = '' if rnd.random() < .5 else ' %s%s\nTherefore word %s%s\nHence x.' % (
                rnd.choice(ph['display']), rnd.choice(['', ',', ';', ' ']), rnd.choice(ph['inline']), rnd.choice(['', ';', ':']))
            case = dict(fam='shell', text=gen_text(rnd, 25) + ' ' + gen_eq_text(rnd, ph) + tail + '\n',
                        accept=rnd.choice(ACC) + rnd.choice(['', '||']), lang=lang, mode=rnd.choice(['displayed', 'inline', 'all']),
                        ml=rnd.random() < .3)
            if i % 6 == 0:
                # the combination multi-language + accepted placeholders + all equations, with language-change
                # placeholders (never an equation) next to equation placeholders, capitals and line ends
                c1, c2 = rnd.choice(ph['change']), rnd.choice(ph['change'])
                case.update(ml=True, mode='all', accept=case['accept'].rstrip('|') + '||',
                            text=case['text'] + 'word %s Word %s %s\nNext %s%s word %s.\n' % (
                                c1, rnd.choice(ph['display']), c2, rnd.choice(ph['inline']), c1, c2))
            yield dict(case, xml=rnd.choice([None, 'xml', 'xml-b', 'xml-b']),
                       cfg=rnd.choice([0, 0, 1, 2, 3, 4]),
                       lt=rnd.choice([None, None, r'\S+', r'\w', r'(?<!\S)\S(?!\S)|\S{4,}']))
        for i in range(nsh // 2):
            yield dict(fam='shelltex', s=rnd.getrandbits(48), accept=rnd.choice(['', 'A|I', 'a|x', 'I||', 'e.g.|K']))

    def judge_shelltex(self, case, cnt):
        """LaTeX input in multi-language mode: several separately checked parts; every message of the own checks
        must select the offending characters in the LaTeX file, also in the second and later parts"""
        src, regions, eqs = gen_shelltex(random.Random(case['s']), cnt)
        fn = os.path.join(self.tmp, 'in%d.tex' % os.getpid())
        with open(fn, 'w', encoding='utf-8', newline='') as f:
            f.write(src)
        accept = case['accept']
        cmd = [env.PY, '-m', 'yalafi.shell', '--no-config', '--output', 'json', '--packages', '*',
               '--lt-command', '%s %s' % (env.PY, self.stub), '--language', 'en-GB', '--multi-language',
               '--single-letters', accept, '--equation-punctuation', 'displayed', fn]
        pr = subprocess.run(cmd, capture_output=True, timeout=180, cwd=self.tmp, env=env.child_env())
        err = pr.stderr.decode('utf-8', 'replace')
        detail = dict(src=src, cmd=cmd[2:], stderr=err[-800:])
        if pr.returncode != 0:
            return dict(ok=False, nt=True, key='shelltex:exit%d' % pr.returncode, cnt=cnt, obs=None, detail=detail)
        ms = json.loads(pr.stdout.decode('utf-8'))['matches']
        single = [m for m in ms if m['rule']['id'] == 'PRIVATE::SINGLE_LETTER']
        eq = [m for m in ms if m['rule']['id'] == 'PRIVATE::EQUATION_PUNCTUATION']
        want = sorted(st + k for st, r in regions for k in model_single(r, accept.rstrip('|')))
        # (the letters of an equation placeholder are isolated letters, too, unless the accept list ends with ||:
        # such messages lie on the equation and are not judged here)
        in_eq = [m for m in single if any(st <= m['offset'] < en for st, en, b in eqs)]
        if in_eq and accept.endswith('||'):
            detail = dict(src=src, cmd=cmd[2:], message=in_eq[0])
            return dict(ok=False, nt=True, key='shelltex:single:placeholder-flagged', cnt=cnt, obs=None, detail=detail)
        single = [m for m in single if m not in in_eq]
        got = sorted(m['offset'] for m in single)
        detail.update(single_got=got, single_want=want, eq_got=[m['offset'] for m in eq], equations=eqs)
        if got != want:
            return dict(ok=False, nt=True, key='shelltex:single:' + ('omitted' if set(want) - set(got) else 'wrong-place'),
                        cnt=cnt, obs=None, detail=detail)
        for m in single:
            cx = m['context']
            if m['length'] != 1 or cx['text'][cx['offset']:cx['offset'] + cx['length']] != src[m['offset']]:
                detail['message'] = m
                return dict(ok=False, nt=True, key='shelltex:single:context', cnt=cnt, obs=None, detail=detail)
        bad = [(st, en) for st, en, b in eqs if b]
        for m in eq:
            if not any(st <= m['offset'] < en for st, en in bad):
                detail['message'] = m
                return dict(ok=False, nt=True, key='shelltex:eqpunct:wrong-place', cnt=cnt, obs=None, detail=detail)
        if len(eq) != len(bad):
            return dict(ok=False, nt=True, key='shelltex:eqpunct:count', cnt=cnt, obs=None, detail=detail)
        cnt['shelltex_runs'] = 1
        cnt['shelltex_messages'] = len(ms)
        later = [m for m in single if m['offset'] > regions[1][0]] if len(regions) > 1 else []
        if later:
            cnt['shelltex_messages_in_later_parts'] = len(later)
        return dict(ok=True, nt=bool(ms), key=None, cnt=cnt, obs=dict(src=tex.short(src, 200), single=got))

    def ph_of(self, lang):
        if not hasattr(self, 'ph'):
            self.ph = {lg: placeholders(lg) for lg in ('en', 'de', 'ru')}
        return self.ph[lang]

    # ------------------------------------------------------------------
    def context_ok(self, t, m):
        c = m['context']
        off, ln = m['offset'], m['length']
        marked = c['text'][c['offset']:c['offset'] + c['length']]
        want = t[off:off + ln].replace('\t', ' ').replace('\n', ' ')
        return marked == want and ln == c['length']

    def judge(self, case):
        fam = case['fam']
        cnt = {'fam_' + fam: 1}
        if fam == 'single':
            return self.judge_single(case, cnt)
        if fam == 'eq':
            return self.judge_eq(case, cnt)
        if fam == 'shelltex':
            return self.judge_shelltex(case, cnt)
        return self.judge_shell(case, cnt)

    def judge_single(self, case, cnt, msgs=None, text=None):
        t = case['text'] if text is None else text
        accept = case['accept']
        if msgs is None:
            c = Cmd()
            c.single_letters = accept
            msgs = ychecks.create_single_letter_matches(t, c)
        got = [m['offset'] for m in msgs]
        exp = model_single(t, accept)
        detail = dict(text=t, accept=accept, got=got, want=exp)
        if sorted(got) != exp:
            if len(got) != len(set(got)):
                key = 'single:twice'
            elif set(got) - set(exp):
                i = sorted(set(got) - set(exp))[0]
                key = 'single:flagged-although-' + ('accepted' if isletter(t[i]) and (i == 0 or not isw(t[i - 1]))
                                                    and (i + 1 == len(t) or not isw(t[i + 1])) else 'not-isolated-letter')
            else:
                key = 'single:omitted'
            return dict(ok=False, nt=True, key=key, cnt=cnt, obs=None, detail=detail)
        for m in msgs:
            if m['length'] != 1 or not self.context_ok(t, m):
                detail['message'] = m
                return dict(ok=False, nt=True, key='single:context', cnt=cnt, obs=None, detail=detail)
        cnt['single_messages'] = len(got)
        if any(isletter(ch) for ch in t) and len(got) < sum(1 for i in model_single(t, '')):
            cnt['single_accepted_letters'] = 1
        return dict(ok=True, nt=bool(got) or bool(model_single(t, '')), key=None, cnt=cnt,
                    obs=dict(text=tex.short(t, 80), accept=accept, offsets=got))

    def eq_sound(self, t, m, mode_ph, all_ph):
        """message must start at a placeholder of the mode that is followed neither by '.' nor (after an optional
        , ; :) by a lower-case word or another placeholder of the mode"""
        off = m['offset']
        ph = next((p for p in mode_ph if t.startswith(p, off)), None)
        if ph is None:
            return 'not-at-placeholder'
        if off > 0 and isw(t[off - 1]):
            return 'not-at-word-boundary'
        j = off + len(ph)
        rest = t[j:]
        k = 0
        while k < len(rest) and rest[k].isspace():
            k += 1
        if k < len(rest) and rest[k] == '.':
            return 'followed-by-full-stop'
        if k < len(rest) and rest[k] in ',;:':
            k += 1
            while k < len(rest) and rest[k].isspace():
                k += 1
        nxt = rest[k:]
        if any(nxt.startswith(p) and not (len(nxt) > len(p) and isw(nxt[len(p)])) for p in mode_ph):
            return 'followed-by-placeholder'
        w = re.match(r'[^\W0-9_]+', nxt)
        if w and w.group(0)[0].islower():
            return 'followed-by-lower-case-word'
        return None

    def judge_eq(self, case, cnt, msgs=None, text=None):
        t = case['text'] if text is None else text
        ph = self.ph_of(case['lang'])
        mode = case['mode']
        full = next(k for k in ('displayed', 'inline', 'all') if k.startswith(mode))
        mode_ph = {'displayed': ph['display'], 'inline': ph['inline'], 'all': ph['display'] + ph['inline']}[full]
        if msgs is None:
            c = Cmd()
            c.equation_punctuation = mode
            d = '|'.join(set(ph['display']))
            i = '|'.join(set(ph['inline']))
            msgs = ychecks.create_equation_punct_messages(t, c, d, i, '|'.join(set(ph['display'] + ph['inline'])))
        detail = dict(text=t, mode=mode, lang=case['lang'], messages=[(m['offset'], m['length']) for m in msgs])
        seen = set()
        for m in msgs:
            why = self.eq_sound(t, m, mode_ph, ph)
            if why:
                detail['message'] = m
                return dict(ok=False, nt=True, key='eqpunct:' + why, cnt=cnt, obs=None, detail=detail)
            if m['offset'] in seen:
                return dict(ok=False, nt=True, key='eqpunct:twice', cnt=cnt, obs=None, detail=detail)
            seen.add(m['offset'])
            if not self.context_ok(t, m) or not t.startswith(tuple(mode_ph), m['offset']):
                detail['message'] = m
                return dict(ok=False, nt=True, key='eqpunct:context', cnt=cnt, obs=None, detail=detail)
        cnt['eq_messages'] = len(msgs)
        cnt['eq_placeholders_in_text'] = sum(t.count(p) for p in mode_ph)
        return dict(ok=True, nt=bool(msgs), key=None, cnt=cnt,
                    obs=dict(text=tex.short(t, 80), mode=mode, offsets=[m['offset'] for m in msgs]))

    def judge_shell(self, case, cnt):
        t = case['text']
        fn = os.path.join(self.tmp, 'in%d.txt' % os.getpid())
        with open(fn, 'w', encoding='utf-8', newline='') as f:
            f.write(t)
        lang = {'en': 'en-GB', 'de': 'de-DE', 'ru': 'ru-RU'}[case['lang']]
        cmd = [env.PY, '-m', 'yalafi.shell', '--no-config', '--plain-input', '--output', 'json',
               '--lt-command', '%s %s' % (env.PY, self.stub), '--language', lang,
               '--single-letters', case['accept'], '--equation-punctuation', case['mode']]
        if case['ml']:
            cmd.append('--multi-language')
        cmd.append(fn)
        cfg = os.path.join(self.tmp, '.yalafi.shell')
        if case.get('cfg') and case['accept'].strip():
            # the two options come from the configuration file in the current directory (one option per line,
            # white space around the line is not part of the value)
            pad = ['', ' ', '\t', '   '][case['cfg'] % 4]
            with open(cfg, 'w', encoding='utf-8') as f:
                f.write('%s--single-letters %s%s\n\n%s--equation-punctuation   %s%s\n'
                        % (pad, case['accept'], pad, pad, case['mode'], pad))
            k = cmd.index('--single-letters')
            del cmd[k:k + 4]
            cmd.remove('--no-config')
            cnt['shell_options_from_config_file'] = 1
        elif os.path.exists(cfg):
            os.remove(cfg)
        envx = env.child_env()
        if case.get('lt'):
            # the proofreader reports problems of its own, also at exactly the places of the shell's own messages
            from .. import shellrun
            planf = os.path.join(self.tmp, 'plan%d.json' % os.getpid())
            with open(planf, 'w') as f:
                json.dump({'mode': 'words', 'regex': case['lt']}, f)
            envx = env.child_env({'YVM_LT_PLAN': planf})
            cmd[cmd.index('--lt-command') + 1] = '%s -S %s' % (env.PY, shellrun.FAKELT)
        pr = subprocess.run(cmd, capture_output=True, timeout=180, cwd=self.tmp, env=envx)
        err = pr.stderr.decode('utf-8', 'replace')
        detail = dict(text=t, cmd=cmd[2:], stderr=err[-800:], lt=case.get('lt'))
        if pr.returncode != 0:
            return dict(ok=False, nt=True, key='shell:exit%d' % pr.returncode, cnt=cnt, obs=None, detail=detail)
        ms = json.loads(pr.stdout.decode('utf-8'))['matches']
        own_places = {(m['offset'], m['length']) for m in ms if m['rule']['id'].startswith('PRIVATE::')}
        if any((m['offset'], m['length']) in own_places for m in ms if not m['rule']['id'].startswith('PRIVATE::')):
            cnt['shell_runs_with_coinciding_proofreader_match'] = 1
        ph = self.ph_of(case['lang'])
        accept = case['accept']
        if accept.endswith('||'):
            repls = ph['display'] + ph['inline'] + (ph['change'] if case['ml'] else [])
            accept = accept + '|'.join(sorted(set(repls)))
            cnt['shell_accept_placeholders'] = 1
        single = [m for m in ms if m['rule']['id'] == 'PRIVATE::SINGLE_LETTER']
        eq = [m for m in ms if m['rule']['id'] == 'PRIVATE::EQUATION_PUNCTUATION']
        # the shell appends a line break if missing and works on the text as read
        r1 = self.judge_single(dict(text=t, accept=accept), cnt, msgs=single, text=t)
        if not r1['ok']:
            r1['key'] = 'shell:' + r1['key']
            r1['detail']['cmd'] = cmd[2:]
            return r1
        r2 = self.judge_eq(dict(text=t, lang=case['lang'], mode=case['mode']), cnt, msgs=eq, text=t)
        if not r2['ok']:
            r2['key'] = 'shell:' + r2['key']
            r2['detail']['cmd'] = cmd[2:]
            return r2
        # the same run in the XML formats (character and byte counts): location and context excerpt of every
        # message designate the same characters as in the JSON report
        if case.get('xml'):
            import xml.etree.ElementTree as ET
            xmode = case['xml']
            cmdx = [a if a != 'json' else xmode for a in cmd]
            prx = subprocess.run(cmdx, capture_output=True, timeout=180, cwd=self.tmp, env=envx)
            detail = dict(text=t, cmd=cmdx[2:], stderr=prx.stderr.decode('utf-8', 'replace')[-600:])
            if prx.returncode != 0:
                return dict(ok=False, nt=True, key='shell:%s:exit%d' % (xmode, prx.returncode), cnt=cnt, obs=None, detail=detail)
            try:
                errs = ET.fromstring(prx.stdout.decode('utf-8')).findall('error')
            except ET.ParseError:
                errs = None         # characters XML cannot represent: not judged
                cnt['shell_xml_unreadable'] = 1
            own = [m for m in ms if m['rule']['id'].startswith('PRIVATE::')]
            if errs is not None:
                tt = t if t.endswith('\n') else t + '\n'
                enc = (lambda s: len(s.encode('utf-8'))) if xmode == 'xml-b' else len
                want = []
                for m in sorted(own, key=lambda m: m['offset']):
                    o, ln = m['offset'], m['length']
                    nl = tt.rfind('\n', 0, o) + 1
                    last = o + ln - 1
                    nl2 = tt.rfind('\n', 0, last) + 1
                    # (end of the marked range: line of the last character, column behind it)
                    want.append((tt.count('\n', 0, o), enc(tt[nl:o]), tt[o:o + ln], tt.count('\n', 0, last),
                                 enc(tt[nl2:last + 1])))
                got = []
                for e in errs:
                    if e.get('msg') not in ('Single letter detected.',) and 'punctuation' not in e.get('msg', '').lower():
                        continue
                    ctext, coff, clen = e.get('context'), int(e.get('contextoffset')), int(e.get('errorlength'))
                    if xmode == 'xml-b':
                        marked = ctext.encode('utf-8')[coff:coff + clen].decode('utf-8', 'replace')
                    else:
                        marked = ctext[coff:coff + clen]
                    got.append((int(e.get('fromy')), int(e.get('fromx')), marked, int(e.get('toy')), int(e.get('tox'))))
                norm = lambda s: s.replace('\n', ' ').replace('\t', ' ')        # noqa
                if any(a != ty for a, b, w, ty, tx in want):
                    cnt['shell_xml_messages_over_line_break'] = cnt.get('shell_xml_messages_over_line_break', 0) + 1
                if sorted(got) != sorted((a, b, norm(w), ty, tx) for a, b, w, ty, tx in want):
                    detail.update(got=sorted(got), want=sorted(want))
                    return dict(ok=False, nt=True, key='shell:%s:location-or-context' % xmode, cnt=cnt, obs=None, detail=detail)
                cnt['shell_xml_messages'] = len(got)
        if not case.get('xml'):
            # the same run as text report: the mark under the context line selects the same characters
            cmdp = [a for a in cmd]
            k = cmdp.index('--output')
            cmdp[k + 1] = 'plain'
            prp = subprocess.run(cmdp, capture_output=True, timeout=180, cwd=self.tmp, env=envx)
            detail = dict(text=t, cmd=cmdp[2:], stderr=prp.stderr.decode('utf-8', 'replace')[-600:])
            if prp.returncode != 0:
                return dict(ok=False, nt=True, key='shell:plain:exit%d' % prp.returncode, cnt=cnt, obs=None, detail=detail)
            rep = prp.stdout.decode('utf-8')
            got = []
            for mm in re.finditer(r'^\d+\.\) Line (\d+), column (\d+), Rule ID: PRIVATE::\S+\nMessage: [^\n]*\n'
                                  r'Suggestion: [^\n]*\n([^\n]*)\n( *)(\^+)\n', rep, re.M):
                ctxl, sp, car = mm.group(3), mm.group(4), mm.group(5)
                got.append((int(mm.group(1)), int(mm.group(2)), ctxl[len(sp):len(sp) + len(car)]))
            tt = t if t.endswith('\n') else t + '\n'
            norm = lambda s: s.replace('\n', ' ').replace('\t', ' ')        # noqa
            want = []
            for m in ms:
                if m['rule']['id'].startswith('PRIVATE::'):
                    o, ln = m['offset'], m['length']
                    want.append((tt.count('\n', 0, o) + 1, o - (tt.rfind('\n', 0, o) + 1) + 1, norm(tt[o:o + ln])))
            if sorted(got) != sorted(want):
                detail.update(got=sorted(got), want=sorted(want), report=rep[:1200])
                return dict(ok=False, nt=True, key='shell:plain:location-or-mark', cnt=cnt, obs=None, detail=detail)
            cnt['shell_plain_messages'] = len(got)
        cnt['shell_runs'] = 1
        return dict(ok=True, nt=bool(ms), key=None, cnt=cnt,
                    obs=dict(text=tex.short(t, 80), single=[m['offset'] for m in single], eq=[m['offset'] for m in eq]))

    def quotas(self, tier):
        return {'fam_single': 20000, 'fam_eq': 10000, 'single_messages': 20000, 'single_accepted_letters': 3000,
                'eq_messages': 1500, 'shell_runs': 200, 'shell_accept_placeholders': 40, 'shelltex_runs': 100,
                'shelltex_messages_in_later_parts': 100, 'shelltex_repeated_part': 15, 'shell_xml_messages': 300, 'shell_options_from_config_file': 60,
                'shell_runs_with_coinciding_proofreader_match': 30, 'shell_xml_messages_over_line_break': 10, 'shell_plain_messages': 100}


CHECK = C20
