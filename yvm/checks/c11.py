"""C11 - displayed equations follow the documented scheme and keep their punctuation.

Oracle: reference model of README "Parser for maths material" (rows / sections / parts,
placeholder per maths part with an element, operator word for a leading operator of a
non-first section, trailing punctuation, rotation at the four documented points), judged
per equation on the output lines between two unique words, with positions.
"""
import random
import re

from .. import core, tex

DISP = {'en': ['U-U-U', 'V-V-V', 'W-W-W', 'X-X-X', 'Y-Y-Y', 'Z-Z-Z'],
        'de': ['U-U-U', 'V-V-V', 'W-W-W', 'X-X-X', 'Y-Y-Y', 'Z-Z-Z'],
        'ru': ['Ц-Ц-Ц', 'Ч-Ч-Ч', 'Ш-Ш-Ш', 'Ы-Ы-Ы', 'Э-Э-Э', 'Ю-Ю-Ю']}
OPW = {'en': {'+': 'plus', '-': 'minus', '\\cdot': 'times', '\\times': 'times', '/': 'over', None: 'equal'},
       'de': {'+': 'plus', '-': 'minus', '\\cdot': 'mal', '\\times': 'mal', '/': 'durch', None: 'gleich'},
       'ru': {'+': 'плюс', '-': 'минус', '\\cdot': 'раз', '\\times': 'раз', '/': 'на', None: 'равно'}}
OPS = ['+', '-', '\\cdot', '\\times', '/', '=', '\\ne', '\\le', '<', '>', '\\to', '\\subset', '\\neq', '\\geq',
       '\\Rightarrow', '\\cup', ':']
ELEMS = ['a', 'b', 'x', '1', '2', '\\alpha', '\\beta', '\\sum', 'f(x)', 'x^2', 'a_{i}', '\\frac{a}{b}', '\\sqrt{x}',
         '\\mathrm{hopQ}', '\\zzunkm', '\\int_0^1', '\\left(x\\right)', '\\%', '\\ldots',
         # an inner environment without cell / row separators is part of the run of maths it stands in
         '\\begin{pmatrix} a \\end{pmatrix}', '\\begin{split}x\\end{split}', '\\begin{aligned} y^2 \\end{aligned}',
         '\\begin{zzmenv}b\\end{zzmenv}']
SPACES = ['\\;', '\\quad', '\\,', '~', '\\ ', '\\qquad', '\\:']
PUNCT = ['.', ',', ';', ':']
ENVS = ['align', 'equation', '\\[', 'align*', 'eqnarray', 'gather', '$$', 'displaymath', 'equation*', 'flalign',
        'alignat', 'eqnarray*', 'multiline', 'gather*', 'alignat*', 'flalign*', 'multiline*']
BUILTIN_ENVS = ['equation', '\\[', 'eqnarray', '$$', 'displaymath', 'eqnarray*']


def gen_part(rnd, allow_lead_op=True, ams=True):
    atoms = []
    if rnd.random() < .2:
        atoms.append(('sp', rnd.choice(SPACES)))
    if allow_lead_op and rnd.random() < .5:
        if rnd.random() < .15:
            atoms.append(('ig', rnd.choice(['{}', '\\!'])))
        atoms.append(('op', rnd.choice(OPS)))
    n = rnd.randint(0, 3)
    for i in range(n):
        atoms.append(('el', rnd.choice(ELEMS)))
        if rnd.random() < .4 and i < n - 1:
            atoms.append(('op', rnd.choice(OPS[:-1])))
    if rnd.random() < .35:
        atoms.append(('pu', rnd.choice(PUNCT)))
    if rnd.random() < .2:
        atoms.append(('sp', rnd.choice(SPACES)))
        if rnd.random() < .3:
            atoms.append(('sp', rnd.choice(SPACES)))
    if rnd.random() < .2:
        atoms.append(('ig', rnd.choice(['\\label{hkQ}', '\\nonumber', '\\notag' if ams else '\\nonumber', '{}',
                                        '\\label{hkQ}\\nonumber'])))
    if not [a for a in atoms if a[0] in ('el', 'op', 'pu')]:
        atoms.append(('el', 'z'))
    return atoms


class Eq:
    pass


def gen_eq(rnd, wid, ams=True):
    def text():
        wid[0] += 1
        # (a text part may itself contain an inline formula: that is no part of the scheme of the equation)
        inl = rnd.choice([' $x$', ' \\(y_1\\) ', '$n$']) if rnd.random() < .2 else ''
        return ('text', rnd.choice([' ', '']), 'tw%dz' % wid[0], rnd.choice([' ', '']), inl)

    def section():
        items = []
        k = rnd.randint(1, 3)
        for i in range(k):
            if i % 2 == 0 or rnd.random() < .3:
                items.append(('math', gen_part(rnd, ams=ams)))
            else:
                items.append(text())
        out = []
        for it in items:
            if out and out[-1][0] == 'math' and it[0] == 'math':
                out.append(text())
            out.append(it)
        return out
    rows = []
    for r in range(rnd.randint(1, 4)):
        rows.append([section() for s in range(rnd.randint(1, 4))])
    return rows


def row_renders(row):
    return any((it[0] == 'text') or (it[0] == 'math' and any(a[0] == 'el' for a in it[1]))
               for sec in row for it in sec)


def model(rows, repls, opw):
    """-> lines: list of token lists; token = ('ph'|'op'|'tx', string)"""
    lines = []
    next_repl = True
    for row in rows:
        toks = []
        for si, sec in enumerate(row):
            first_part = si > 0
            for it in sec:
                if it[0] == 'text':
                    toks.append(('tx', it[2] + ('@' if len(it) > 4 and it[4] else '')))
                    first_part = False
                    next_repl = True
                    continue
                atoms = [a for a in it[1] if a[0] != 'ig']
                core_ = [a for a in atoms if a[0] != 'sp']
                if not core_:
                    continue
                op = core_[0] if (core_[0][0] == 'op' or core_[0][1] == ':') else None
                elem = any(a[0] == 'el' for a in core_)
                if first_part and op:
                    toks.append(('op', opw.get(op[1], opw[None])))
                if (next_repl or (op and first_part)) and elem:
                    repls[:] = repls[1:] + repls[:1]
                s = ''
                if elem:
                    s = repls[0]
                next_repl = False
                if core_[-1][1] in PUNCT:
                    s += core_[-1][1]
                    next_repl = True
                if op and not elem:
                    next_repl = True
                if s:
                    toks.append(('ph', s))
        lines.append(toks)
    return lines


def render(rnd, rows, env, ams=True, dangling=False):
    """-> (source of the equation, offsets of text words relative to its start)"""
    out = []
    n = [0]
    words = {}

    def emit(s):
        out.append(s)
        n[0] += len(s)
    if env in ('\\[', '$$'):
        emit(env + rnd.choice(['\n', ' ', '']))
    else:
        emit('\\begin{%s}' % env + ('{2}' if env.startswith('alignat') else '') + rnd.choice(['\n', ' ', '']))
    for ri, row in enumerate(rows):
        if ri:
            sep = rnd.choice([' \\\\\n', '\\\\ ', ' \\\\[2ex]\n', ' \\\\\n', '\\\\ ', ' \\\\[2ex]\n', '\\\\*\n', ' \\\\* '])
            if '*' in sep:
                # the starred row separator: the filter reads the star as the first character of the next row (an
                # element of its first maths part); the row still ends here
                first = row[0]
                if first and first[0][0] == 'math':
                    first[0] = ('math', [('el', '*', 'written-with-the-separator')] + list(first[0][1]))
                else:
                    first.insert(0, ('math', [('el', '*', 'written-with-the-separator')]))
            emit(sep)
        for si, sec in enumerate(row):
            if si:
                emit(rnd.choice([' & ', '&', ' &']))
            for ii, it in enumerate(sec):
                if ii:
                    emit(rnd.choice([' ', '']))
                if it[0] == 'math':
                    # control words need a delimiter before a following letter
                    s = ''
                    for a in it[1]:
                        if len(a) > 2:
                            continue
                        if s and a[1][0].isalpha() and re.search(r'\\[a-zA-Z]+$', s):
                            s += ' '
                        elif s and rnd.random() < .3:
                            s += ' '
                        s += a[1]
                    emit(s)
                elif it[2] == 'ytxtz':
                    # the text part is supplied by a user macro (\\newcommand{\\ytxt}{\\mbox{ ytxtz }}): generated text
                    emit('\\ytxt{}')
                else:
                    m = rnd.choice(['\\text', '\\mbox'] if ams else ['\\mbox'])
                    emit(m + '{' + it[1])
                    words[it[2]] = n[0]
                    emit(it[2] + (it[4] if len(it) > 4 else '') + it[3] + '}')
    if dangling:
        # simple-equations mode only: a dangling row separator / alignment character after the last row
        emit(rnd.choice([' \\\\', '\\\\[1ex]', ' &', ' & \\quad', ' \\\\ ']))
    if env == '\\[':
        emit(rnd.choice(['\n', ' ', '']) + '\\]')
    elif env == '$$':
        emit(rnd.choice(['\n', ' ', '']) + '$$')
    else:
        emit(rnd.choice(['\n', ' ', '']) + '\\end{%s}' % env)
    return ''.join(out), words


class C11(core.Check):
    id = 'C11'
    level = 'exploration'
    technique = 'runtime monitor: reference model of the documented display-maths scheme (rows x sections x parts, rotation state)'
    rule = ('documents with 1-4 equations, each 1-4 rows x 1-4 sections x 1-3 parts (maths parts over elements, '
            'operators, maths spaces, trailing . , ; : followed by up to two maths spaces and \\label / \\nonumber / '
            '\\notag / {}; \\text / \\mbox parts with unique words), environments %s, \\\\[len], languages en / de / ru, '
            'simple-equations mode on and off; rows that render nothing are not generated. Judged per equation: number '
            'of output lines = rows, per row the non-blank stream = model, punctuation directly after its '
            'placeholder, output alphabet, \\text words at exact offsets, generated characters inside the equation. '
            'non-trivial = equation with >= 2 rows or >= 2 sections; distinct = distinct (seed, language, options)'
            % ENVS)
    level_text = ('Exploration: the scheme is a small rewriting system with a rotation state; tens of thousands of random '
                  'equations per run are compared with a reference model written from the README (validated at 0 '
                  'differences on the unchanged tree), including what may follow a punctuation mark.')
    level_note = 'Trusted: the 60-line scheme model; the generator respects the README assumption (aligned operators right of &).'
    design_ref = 'DESIGN.md section 4, C11'
    assumptions = ['a row that renders nothing is degenerate and not generated',
                   'operators not in math_op_text are rendered by the default word (equal / gleich / ...)']

    def cases(self, tier, seed, shard, nshards):
        rnd = core.sub_rng('C11', seed, shard)
        n = (16000 if tier == "quick" else 200000) // nshards
        for i in range(n):
            ml = rnd.random() < .2
            yield dict(s=rnd.getrandbits(48), lang=rnd.choice(['en', 'en', 'de', 'ru']), seqs=rnd.random() < .2,
                       pack='*' if ml else rnd.choice(['*', '*', '*', '']), ml=ml)

    def judge(self, case):
        rnd = random.Random(case['s'])
        lang = case['lang']
        wid = [0]
        neq = rnd.randint(1, 4)
        src = ''
        redef = case['s'] % 6 == 1
        macrotext = case['s'] % 5 == 2
        if macrotext:
            # a text part that comes from the body of a user macro, used in several equations
            src = '\\newcommand{\\ytxt}{\\mbox{ ytxtz }}\n'
        if redef:
            # relation macros re-defined by the user (a common preamble line) are still operators of the scheme
            src += ('\\renewcommand{\\le}{\\leqslant}\n\\newcommand{\\to}{\\longrightarrow}\n'
                   '\\renewcommand{\\subset}{\\varsubset}\n')
        eqs = []
        cnt_macrotext = [0]
        cnt_scope = [0]
        for k in range(neq):
            while True:
                rows = gen_eq(rnd, wid, ams=case['pack'] == '*')
                if all(row_renders(r) for r in rows):
                    break
            if macrotext:
                for row in rows:
                    for sec in row:
                        for j, it in enumerate(sec):
                            if it[0] == 'text' and rnd.random() < .6:
                                sec[j] = ('text', ' ', 'ytxtz', ' ')
                                cnt_macrotext[0] += 1
            if redef:
                # (the new replacement text is an element: keep such an operator in front of an element)
                for row in rows:
                    for sec in row:
                        for it in sec:
                            if it[0] != 'math':
                                continue
                            atoms = it[1]
                            for j, a in enumerate(atoms):
                                if a[0] == 'op' and a[1] in ('\\le', '\\to', '\\subset') and \
                                        not any(b[0] == 'el' for b in atoms[j + 1:]):
                                    atoms[j] = ('op', '\\leq')
            env = rnd.choice(ENVS if case['pack'] == '*' else BUILTIN_ENVS)
            e = Eq()
            e.rows = rows
            e.env = env
            e.wa = 'wa%dz' % k
            e.wb = 'wb%dz' % k
            scope_end = ''
            if case.get('ml'):
                # multi-language mode: a hard language switch before each equation
                e.lang = rnd.choice(['en', 'de', 'ru'])
                bab = {'en': 'english', 'de': 'german', 'ru': 'russian'}
                src += '\n\n\\selectlanguage{%s}\n\n' % bab[e.lang]
                if rnd.random() < .35:
                    # ... or the equation stands in a language scope, behind a nested switch to the very same language
                    e.lang = rnd.choice(['en', 'de', 'ru'])
                    src += 'wsc%dz \\begin{otherlanguage}{%s}\nwsd%dz ' % (k, bab[e.lang], k)
                    if rnd.random() < .7:
                        src += rnd.choice(['\\foreignlanguage{%s}{wse%dz} ', '\\begin{otherlanguage*}{%s}wse%dz\\end{otherlanguage*} ']) \
                            % (bab[e.lang], k)
                    scope_end = '\\end{otherlanguage}\n'
                    cnt_scope[0] += 1
            else:
                e.lang = lang
            src += e.wa + '\n'
            e.start = len(src)
            dangling = case['seqs'] and rnd.random() < .3
            if dangling:
                cnt_dangling = True
            body, words = render(rnd, rows, env, ams=case['pack'] == '*', dangling=dangling)
            e.words = {w: e.start + off for w, off in words.items()}
            src += body
            e.end = len(src)
            src += '\n' + e.wb + rnd.choice(['\n\n', '\n', ' ']) + scope_end
            eqs.append(e)
        if case.get('ml'):
            code = {'en': 'en-GB', 'de': 'de-DE', 'ru': 'ru-RU'}[lang]
            r, err = tex.run(src, ml=True, lang=code, pack=case['pack'], seqs=case['seqs'])
            # judged on the concatenation of all parts (each equation lies between its own two words)
            t = ''.join(part[0] + '\n\n' for lg in r for part in r[lg])
            p = [q for lg in r for part in r[lg] for q in list(part[1]) + [part[1][-1], part[1][-1]]]
        else:
            (t, p), err = tex.run(src, lang=lang, pack=case['pack'], seqs=case['seqs'])
        cnt = {'equations': neq, 'seqs_docs' if case['seqs'] else 'full_docs': 1}
        if redef:
            cnt['docs_with_redefined_operators'] = 1
        if cnt_macrotext[0] >= 2:
            cnt['docs_with_macro_text_used_twice'] = 1
        if case.get('ml'):
            cnt['ml_docs'] = 1
        if cnt_scope[0]:
            cnt['ml_equations_in_language_scope'] = cnt_scope[0]
        detail = dict(src=src, plain=t, stderr=err, lang=lang, seqs=case['seqs'])
        if err:
            return dict(ok=False, nt=True, key='stderr', cnt=cnt, obs=None, detail=detail)
        if 'Q' in t:
            return dict(ok=False, nt=True, key='maths-source-leak', cnt=cnt, obs=None, detail=detail)
        repls_by_lang = {lg: list(DISP[lg]) for lg in DISP}
        nt = False
        for e in eqs:
            repls = repls_by_lang[e.lang]
            lines = model(e.rows, repls, OPW[e.lang])
            m = re.search(re.escape(e.wa) + r'\n(.*?)\n' + re.escape(e.wb), t, re.S)
            detail['equation'] = src[e.start:e.end]
            if not m:
                return dict(ok=False, nt=True, key='frame', cnt=cnt, obs=None, detail=detail)
            got_lines = m.group(1).split('\n')
            if case['seqs']:
                flat = [tok for ln in lines for tok in ln]
                last = flat[-1][1] if flat else ''
                want = repls[0] + (last[-1] if last and last[-1] in PUNCT and flat[-1][0] == 'ph' else '')
                got = m.group(1).strip()
                detail.update(want=want, got=got)
                if got != want:
                    key = 'simple:' + ('punctuation' if got[:5] == want[:5] else 'text')
                    return dict(ok=False, nt=True, key=key, cnt=cnt, obs=None, detail=detail)
                lo, hi = m.start(1), m.end(1)
                for i in range(lo, hi):
                    if not e.start + 1 <= p[i] <= e.end:
                        return dict(ok=False, nt=True, key='simple:position', cnt=cnt, obs=None, detail=detail)
                cnt['simple_equations_judged'] = cnt.get('simple_equations_judged', 0) + 1
                continue
            want_lines = [''.join(s for _, s in ln) for ln in lines]
            got = [re.sub(r'([B-GБ-Ж])-\1-\1', '@', ''.join(x.split())) for x in got_lines]
            if any('@' in x for x in want_lines):
                cnt['with_inline_maths_in_text_part'] = cnt.get('with_inline_maths_in_text_part', 0) + 1
            detail.update(want=want_lines, got=got_lines)
            if len(got_lines) != len(lines):
                return dict(ok=False, nt=True, key='rows', cnt=cnt, obs=None, detail=detail)
            for gl, wl, raw, ln in zip(got, want_lines, got_lines, lines):
                if gl != wl:
                    # classify
                    gp = re.findall(r'(.)-\1-\1', gl)
                    wp = re.findall(r'(.)-\1-\1', wl)
                    if re.sub(r'(.)-\1-\1', 'P', gl) == re.sub(r'(.)-\1-\1', 'P', wl) and gp != wp:
                        key = 'rotation'
                    elif re.sub(r'[.,;:]', '', gl) == re.sub(r'[.,;:]', '', wl):
                        key = 'punctuation'
                    elif any(o in gl or o in wl for o in OPW[e.lang].values()) and \
                            re.sub('|'.join(sorted(set(OPW[e.lang].values()), key=len, reverse=True)), '', gl) == \
                            re.sub('|'.join(sorted(set(OPW[e.lang].values()), key=len, reverse=True)), '', wl):
                        key = 'operator-word'
                    else:
                        key = 'row-text'
                    return dict(ok=False, nt=True, key=key, cnt=cnt, obs=None, detail=detail)
                for kind, s in ln:
                    if kind == 'ph' and s[-1] in PUNCT and s not in raw:
                        return dict(ok=False, nt=True, key='punctuation-not-adjacent', cnt=cnt, obs=None, detail=detail)
            # positions
            lo, hi = m.start(1), m.end(1)
            seg = t[lo:hi]
            for w, off in e.words.items():
                i = seg.find(w)
                if i < 0 or [p[lo + i + j] for j in range(len(w))] != [off + j + 1 for j in range(len(w))]:
                    detail['word'] = w
                    return dict(ok=False, nt=True, key='text-part-position', cnt=cnt, obs=None, detail=detail)
            textpos = set()
            for w in e.words:
                i = seg.find(w)
                textpos.update(range(lo + i, lo + i + len(w)))
            for i in range(lo, hi):
                if i not in textpos and not e.start + 1 <= p[i] <= e.end:
                    detail.update(pos=p[i], span=[e.start + 1, e.end], char=t[i])
                    return dict(ok=False, nt=True, key='generated-position:' + ('blank' if t[i].isspace() else 'text'),
                                cnt=cnt, obs=None, detail=detail)
            cnt['equations_judged'] = cnt.get('equations_judged', 0) + 1
            cnt['rows_judged'] = cnt.get('rows_judged', 0) + len(lines)
            if any(s[-1] in PUNCT for ln in lines for k, s in ln if k == 'ph'):
                cnt['with_kept_punctuation'] = cnt.get('with_kept_punctuation', 0) + 1
            if any(k == 'op' for ln in lines for k, s in ln):
                cnt['with_operator_word'] = cnt.get('with_operator_word', 0) + 1
            if len(e.rows) >= 2 or any(len(r) >= 2 for r in e.rows):
                nt = True
        return dict(ok=True, nt=nt or case['seqs'], key=None, cnt=cnt,
                    obs=dict(src=tex.short(src, 300), plain=tex.short(t, 200)))

    def quotas(self, tier):
        return {'ml_docs': 500, 'equations_judged': 5000, 'rows_judged': 10000, 'with_kept_punctuation': 2000,
                'with_operator_word': 1500, 'simple_equations_judged': 1000, 'docs_with_redefined_operators': 500, 'docs_with_macro_text_used_twice': 300,
                'with_inline_maths_in_text_part': 500, 'ml_equations_in_language_scope': 300}


CHECK = C11
