"""C04 - generated text maps into the source span of the construct that generated it."""
from .. import tex
from .doccommon import DocCheck


class C04(DocCheck):
    id = 'C04'
    which = 'c04'
    level = 'exploration'
    technique = 'runtime monitor: generated output characters checked against the printer-recorded span of their construct'
    rule = ('same generated documents as C03; every aligned generated character (reference / citation / maths '
            'placeholders, enumerate labels, punctuation copied to an \\item[..] label, heading full stop, theorem '
            'and proof titles, user-macro body and default-argument text, glossary text, built-in names, removed '
            'environment replacement) must map into [start+1, end] of the construct occurrence. non-trivial = '
            'aligned document with >= 3 generated characters; distinct = distinct generator parameters')
    level_text = ('Exploration: each generated character of thousands of documents is a span obligation, with '
                  'repeated uses of the same macro / glossary entry / theorem per document (shared mutable token '
                  'objects show only on the second use).')
    level_note = 'Trusted: printer spans; white-space characters are not judged (only C01 range).'
    design_ref = 'DESIGN.md sections 3.2, 4 C04'
    assumptions = ['span of a construct = from its leading backslash / $ / \\begin through its last argument / matching end']

    def verdict(self, case, d, t, p, err, a, cnt):
        cnt['span_obligations'] = a['n_gen']
        cnt['flow_separator_obligations'] = a.get('n_sep', 0)
        reps = [k for k in ('usermac', 'usermac2', 'usermacopt', 'gls', 'theorem', 'twice_ext', 'ref', 'cite')
                if d.kinds.get(k, 0) >= 2]
        if reps:
            cnt['docs_with_repeated_use'] = 1
        if a['c04']:
            tag, det = a['c04'][0]
            return dict(ok=False, nt=True, key='gen@' + tag.split(':')[-1], cnt=cnt, obs=None,
                        detail=dict(problems=a['c04'][:4], src=d.src, plain=t, map=list(p)))
        return dict(ok=True, nt=a['aligned'] and a['n_gen'] >= 3, key=None, cnt=cnt,
                    obs=dict(src=tex.short(d.src, 200), span_obligations=a['n_gen']))

    def quotas(self, tier):
        q = super().quotas(tier)
        q.update({'span_obligations': 30000, 'flow_separator_obligations': 5000, 'docs_with_repeated_use': 500})
        return q


CHECK = C04
