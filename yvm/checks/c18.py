"""C18 - extraction and inclusion tracking find exactly the included files, each once.

extract: tex2txt(Options(extr=...)) on documents with listed / unlisted macros in many
contexts; oracle = concatenation of the first mandatory arguments in order, exact positions.
include: real `python -m yalafi.shell --include [--skip] --list-unknown` in a temp
directory over all inclusion graphs on <= 3 files (thorough: exhaustive) and random larger
ones; oracle = BFS closure model (discovery order, each once, skip pattern, termination).
"""
import collections
import itertools
import os
import random
import re
import shutil
import subprocess
import tempfile

from .. import core, env, tex

LISTED_SETS = [('yexa', 'yexb'), ('input', 'include'), ('section', 'yexa'), ('footnote', 'caption', 'yexb'),
               ('yexa',), ('cite', 'input')]


def gen_extract(rnd, pack='*', with_defs=False):
    """-> (src, extr string, expected [(word, offset)], n_known_finding_contexts, contexts)"""
    listed = rnd.choice(LISTED_SETS)
    wid = [0]
    parts = []
    pos = [0]
    exp = []
    ctxs = set()
    kf = [0]
    in_decl = [False]
    kfwords = set()
    singles = list('ABCDEFGHIJKLMNOPRSTUVXY')
    rnd.shuffle(singles)

    def emit(s):
        parts.append(s)
        pos[0] += len(s)

    def word(record):
        wid[0] += 1
        w = 'w%dz' % wid[0]
        if record:
            exp.append((w, pos[0]))
            if in_decl[0]:
                kfwords.add(w)
        emit(w)

    def hidden():
        wid[0] += 1
        emit('h%dQ' % wid[0])

    def listed_call(record):
        name = rnd.choice(listed)
        emit('\\' + name)
        if name in ('section',) and rnd.random() < .5:
            emit(rnd.choice(['*', '[hoptQ]', '*[hoptQ]']))
        if name in ('footnote', 'caption', 'cite') and rnd.random() < .4:
            emit('[hoptQ]')
        if rnd.random() < .2:
            emit(rnd.choice([' ', '\n']))
        r = rnd.random()
        if r < .12 and singles:
            # single-token argument (unique capital letter)
            emit(' ')
            wid[0] += 1
            ch = singles.pop()
            if record:
                exp.append((ch, pos[0]))
                if in_decl[0]:
                    kfwords.add(ch)
            emit(ch)
            emit(' ')
            return
        emit('{')
        for k in range(rnd.randint(1, 3)):
            if k:
                emit(rnd.choice([' ', '\n', '  ']))
            r = rnd.random()
            if r < .7:
                word(record)
            elif r < .85:
                emit('\\zzunk{')
                word(record)
                emit('}')
            else:
                # a declared, unlisted macro inside the argument: vanishes with its arguments
                emit('\\label{')
                hidden()
                emit('}')
        emit('}')

    kfmode = rnd.choice(['declarg', 'newcmd'])      # one known-finding mechanism per document
    ukf = set()
    ndef = [0]
    for _ in range(rnd.randint(2, 10)):
        ctx = rnd.choice(['top', 'top', 'top', 'text', 'text', 'unkarg', 'unkenv', 'knownenv', 'removedenv', 'item', 'comment',
                          'skip', 'verb', 'verbatim', 'unlisted', 'group', 'declarg', 'cell', 'usermacarg', 'math',
                          'defarg', 'defbody', 'newcmd', 'mathtext', 'nested'])
        if ctx in ('declarg', 'newcmd') and ctx != kfmode:
            ctx = 'top'
        if with_defs and ctx == 'text' and rnd.random() < .5:
            # a macro set with \def in the definitions text, used inside the argument of a listed macro
            ctxs.add('defsdef')
            emit('\\' + rnd.choice(listed) + '{')
            word(True)
            emit(' ')
            exp.append(('ydefdz', None))
            emit('\\ydd{} ')
            word(True)
            emit('}')
            emit(rnd.choice([' ', '\n', '\n\n']))
            continue
        ctxs.add(ctx)
        if ctx in ('defarg', 'newcmd'):
            # a parameterless macro defined by the TeX primitive \def (evaluated also in extraction mode) or by
            # \newcommand (known finding: not evaluated) is used inside the argument of a listed macro
            ndef[0] += 1
            mname = '\\ydir' + 'abcdefghijklmnopqrstuvwxyz'[ndef[0] % 26]
            wid[0] += 1
            body = 'w%dz' % wid[0]
            emit(('\\def%s{%s}' if ctx == 'defarg' else '\\newcommand{%s}{%s}') % (mname, body))
            emit(rnd.choice([' ', '\n']))
            emit('\\' + rnd.choice(listed) + '{')
            if rnd.random() < .5:
                word(True)
                emit(rnd.choice([' ', '\n']))
            exp.append((body, None))
            if ctx == 'newcmd':
                ukf.add(body)
            emit(mname + rnd.choice(['{}', ' ', '{} ']))
            word(True)
            emit('}')
            emit(rnd.choice([' ', '\n', '\n\n', ' ']))
            continue
        if ctx == 'defbody':
            # a macro defined by \def whose body calls a listed macro
            ndef[0] += 1
            mname = '\\ychp' + 'abcdefghijklmnopqrstuvwxyz'[ndef[0] % 26]
            wid[0] += 1
            body = 'w%dz' % wid[0]
            emit('\\def%s#1{\\%s{%s #1}}' % (mname, rnd.choice(listed), body))
            emit(rnd.choice([' ', '\n']))
            emit(mname + '{')
            exp.append((body, None))
            word(True)
            emit('}')
            emit(rnd.choice([' ', '\n', '\n\n', ' ']))
            continue
        if ctx == 'top':
            listed_call(True)
        elif ctx == 'text':
            word(False)
            emit(' ')
            word(False)
        elif ctx == 'unkarg':
            emit('\\zzfoo{')
            word(False)
            emit(' ')
            listed_call(True)
            emit('}')
        elif ctx == 'group':
            emit('{')
            listed_call(True)
            emit('}')
        elif ctx == 'unkenv':
            emit('\\begin{zzenv} ')
            listed_call(True)
            emit(' \\end{zzenv}')
        elif ctx == 'removedenv':
            # e.g. \\input inside a tikzpicture: the file is included by LaTeX, the macro is listed
            name = rnd.choice(['tikzpicture', 'lstlisting']) if pack == '*' else 'zzenv'
            emit('\\begin{' + name + '} hremQ ')
            listed_call(True)
            emit(' \\end{' + name + '}')
        elif ctx == 'knownenv':
            name = rnd.choice(['minipage', 'figure', 'table', 'proof'])
            emit('\\begin{' + name + '}' + ('{hQ}' if name == 'minipage' else '[hQ]' if name == 'table' else ''))
            emit(' ')
            listed_call(True)
            emit(' \\end{' + name + '}')
        elif ctx == 'item':
            emit('\\begin{itemize}\\item ')
            listed_call(True)
            emit('\\end{itemize}')
        elif ctx == 'cell':
            emit('\\begin{tabular}{hQ} ')
            word(False)
            emit(' & ')
            listed_call(True)
            emit('\\end{tabular}')
        elif ctx == 'usermacarg':
            # definitions are not evaluated in extraction mode: the macro is unknown, its argument stays
            emit('\\newcommand{\\yusr}[1]{hbQ #1}\\yusr{')
            listed_call(True)
            emit('}')
        elif ctx == 'comment':
            emit('%')
            listed_call(False)
            emit('\n')
        elif ctx == 'skip':
            emit('%%% LT-SKIP-BEGIN\n')
            listed_call(False)
            emit('\n%%% LT-SKIP-END\n')
        elif ctx == 'verb':
            emit('\\verb|')
            n0 = len(parts)
            listed_call(False)
            if '|' in ''.join(parts[n0:]) or '\n' in ''.join(parts[n0:]):
                for x in parts[n0:]:
                    pos[0] -= len(x)
                del parts[n0:]
                emit('hvQ')
            emit('|')
        elif ctx == 'verbatim':
            # (white space with at most one line break may stand between \begin and the name)
            emit(rnd.choice(['\\begin{verbatim}', '\\begin{verbatim}', '\\begin {verbatim}', '\\begin\n{verbatim}',
                             '\\begin\n    {verbatim}', '\\begin\t{verbatim}', '\\begin \n{verbatim}']))
            listed_call(False)
            emit('\\end{verbatim}')
        elif ctx == 'unlisted':
            emit(rnd.choice(['\\zzother{', '\\yexc{', '\\textbf{']))
            word(False)
            emit('}')
        elif ctx == 'declarg':
            # listed macro inside the argument of a declared, unlisted macro (known finding D15: not extracted)
            cands = ['\\LTadd{', '\\framebox{', '\\LTalter{hQ}{']
            if pack == '*' or 'xcolor' in pack:
                cands += ['\\textcolor{hcQ}{', '\\href{huQ}{']
            if 'footnote' not in listed:
                cands.append('\\footnote{')
            if 'section' not in listed:
                cands.append('\\section{')
            emit(rnd.choice(cands))
            in_decl[0] = True
            listed_call(True)
            in_decl[0] = False
            emit('}')
            kf[0] += 1
        elif ctx == 'nested':
            # a listed macro inside the first mandatory argument of a listed macro: both arguments are reported,
            # each word once (the filter reports the inner one first; the order is not judged for such documents)
            emit('\\' + rnd.choice(listed) + '{')
            word(True)
            emit(rnd.choice([' ', '\n']))
            emit('\\' + rnd.choice(listed) + rnd.choice(['{', '{', ' {']))
            word(True)
            if rnd.random() < .3:
                emit(' \\' + rnd.choice(listed) + '{')
                word(True)
                emit('}')
            emit('}')
            emit(rnd.choice([' ', '\n', '']))
            word(True)
            emit('}')
        elif ctx == 'mathtext':
            # a text part inside a formula is ordinary text
            a, b = rnd.choice([('\\[ a = b \\mbox{ ', ' } \\]'), ('$$ x \\mbox{', '} $$'), ('$y \\mbox{', '}$'),
                               ('\\begin{equation} a \\mbox{ for ', '} \\end{equation}')]
                              + ([('\\begin{align} a &= b \\text{ ', '} \\\\ c &= d \\end{align}')] if pack == '*' else []))
            emit(a)
            listed_call(True)
            emit(b)
        elif ctx == 'math':
            emit('$a ')
            listed_call(False)
            emit(' b$')
            ctxs.discard('math')
            # statement is silent about maths: remove this piece again
            while parts and not parts[-1].startswith('$a '):
                pos[0] -= len(parts.pop())
            pos[0] -= len(parts.pop())
        emit(rnd.choice([' ', '\n', '\n\n', ' ']))
    return ''.join(parts), ','.join(listed), exp, kfwords, ctxs, ukf


def bfs_model(files, start, skip):
    def sk(f):
        return bool(skip) and re.search(r'\A' + skip + r'\Z', f) is not None
    todo = list(start)
    done = []
    while todo:
        f = todo.pop(0)
        if f in done or sk(f):
            continue
        done.append(f)
        for g in files.get(f, []):
            if g not in done + todo and not sk(g):
                todo.append(g)
    return done


class C18(core.Check):
    id = 'C18'
    level = 'exploration'
    technique = 'runtime monitor: argument-list model for extraction; BFS closure model vs real shell --include (exhaustive graphs on <= 3 files in the thorough tier)'
    rule = ('extract: documents with listed macros (user names, input/include, section, footnote, caption, cite) at top '
            'level, in unknown-macro arguments, groups, unknown / known environments, items, table cells, arguments of '
            'undefined-in-extraction user macros, and in comments, skipped regions, \\verb, verbatim (must not be '
            'reported); single-token arguments; nested unknown / declared macros inside the argument. include: the '
            'real shell run with --include --list-unknown in a temp directory; graphs: every adjacency choice on 3 '
            'files (512) x variants (\\input / \\include, with / without .tex, duplicates, 1-2 start files, skip '
            'pattern) in the thorough tier, a sample of them plus random graphs on 4-8 files (subdirectory file) in '
            'both. non-trivial = >= 1 listed macro call (extract) / >= 1 inclusion edge (include); distinct = '
            'distinct generator parameters')
    level_text = ('Exploration with an exhaustively enumerated sub-space (thorough): all 512 inclusion graphs on 3 files '
                  'through the real shell; closure, uniqueness, order and termination are properties of a work-list '
                  'algorithm over all graphs. Extraction is judged with exact positions on generated documents.')
    level_note = 'Missing files are not generated (clean fatal error by design). Listed macros inside maths or inside other listed macros are not generated.'
    design_ref = 'DESIGN.md section 4, C18'
    assumptions = ['listed macros nested in the argument of a declared, unlisted macro are a recorded known finding (D15)']

    def setup(self, tier):
        self.tmp = tempfile.mkdtemp(prefix='yvm_c18_')
        self.tier = tier

    def teardown(self):
        shutil.rmtree(self.tmp, ignore_errors=True)

    def cases(self, tier, seed, shard, nshards):
        rnd = core.sub_rng('C18', seed, shard)
        n = (4000 if tier == 'quick' else 60000) // nshards
        for i in range(n):
            yield dict(fam='extract', s=rnd.getrandbits(48), pack=rnd.choice(['*', '*', '', 'xcolor,hyperref']),
                       lang=rnd.choice(['en', 'de']), nosp=False)
        # inclusion graphs on 3 files: adjacency = 9 bits
        idx = 0
        step = 1 if tier == 'thorough' else 4
        for adj in range(0, 512):
            idx += 1
            if idx % nshards != shard:
                continue
            if tier == 'quick' and (adj + seed) % step:
                continue
            yield dict(fam='include', kind='exh3', adj=adj, vs=rnd.getrandbits(32))
        ng = (64 if tier == 'quick' else 1024) // nshards
        for i in range(ng):
            yield dict(fam='include', kind='rand', adj=0, vs=rnd.getrandbits(32))

    # ------------------------------------------------------------------
    def judge(self, case):
        if case['fam'] == 'extract':
            return self.judge_extract(case)
        return self.judge_include(case)

    def judge_extract(self, case):
        src, extr, exp, nkf, ctxs, ukf = gen_extract(random.Random(case['s']), case['pack'], with_defs=case['s'] % 3 == 0)
        cnt = {'extract_docs': 1, 'listed_calls': len(exp)}
        for c in ctxs:
            cnt['ctx_' + c] = 1
        extra = {}
        if case['s'] % 3 == 0:
            # a definitions text that itself calls listed macros: its output (also extracted parts) is discarded
            first = extr.split(',')[0]
            extra['defs'] = ('\\newcommand{\\ydefd}{x}\n\\%s{hdefaQ hdefbQ}\n\\zzfoo{\\%s{hdefcQ}}\n\\def\\ydd{ydefdz}\n'
                             % (first, first))
            cnt['extract_with_defs'] = 1
        if case['s'] % 4 < 2:
            # (simple replacements for displayed equations: no influence on what is extracted)
            extra['seqs'] = True
            cnt['extract_with_seqs'] = 1
        (t, p), err = tex.run(src, extr=extr, pack=case['pack'], lang=case['lang'], nosp=case['nosp'], **extra)
        obs = [(c, q) for c, q in zip(t, p) if not c.isspace()]
        want = [(c, None if off is None else off + i + 1) for w, off in exp for i, c in enumerate(w)]
        detail = dict(src=src, extr=extr, plain=t, want=''.join(c for c, _ in want), stderr=err)
        got_s = ''.join(c for c, _ in obs)
        want_s = ''.join(c for c, _ in want)
        if 'nested' in ctxs:
            # order not judged: every expected word exactly as often as expected, nothing else, each at its own place
            import collections
            rx = r'w\d+z|ydefdz|[A-Z]'
            gtok = [(m.group(0), m.start()) for m in re.finditer(rx, got_s)]
            left = re.sub(rx, '', got_s)
            gc = collections.Counter(w for w, _ in gtok)
            wc = collections.Counter(w for w, off in exp)
            if gc == wc and not left:
                first = {}
                for w, i in gtok:
                    first.setdefault(w, i)
                for w, off in exp:
                    if off is not None and wc[w] == 1 and \
                            [q for _, q in obs[first[w]:first[w] + len(w)]] != list(range(off + 1, off + 1 + len(w))):
                        detail['map'] = list(p)
                        return dict(ok=False, nt=True, key='extract:position', cnt=cnt, obs=None, detail=detail)
                if err:
                    return dict(ok=False, nt=True, key='extract:stderr', cnt=cnt, obs=None, detail=detail)
                return dict(ok=True, nt=bool(exp), key=None, cnt=cnt,
                            obs=dict(src=tex.short(src, 200), extr=extr, plain=tex.short(t, 100)))
            missing = sorted((wc - gc).elements())
            extra = sorted((gc - wc).elements())
            if missing and not extra and not left and set(missing) == set(nkf):
                return dict(ok=False, nt=True, key='extract:nested-in-declared-macro-argument', cnt=cnt, obs=None, detail=detail)
            if missing and not extra and not left and set(missing) == set(ukf):
                return dict(ok=False, nt=True, key='extract:newcommand-macro-inside-listed-argument', cnt=cnt, obs=None,
                            detail=detail)
            detail.update(missing=missing, extra=extra, other=left[:60])
            key = 'extract:text:' + ('leak' if extra or left else 'missing')
            return dict(ok=False, nt=True, key=key, cnt=cnt, obs=None, detail=detail)
        if got_s != want_s:
            # classify: missing words that sit in a declared macro's argument -> D15 mechanism
            missing = [w for w, off in exp if w not in t]
            extra = [w for w in re.findall(r'[wh]\d+[zQ]|[A-Z]', t) if w not in [x for x, _ in exp]]
            if missing and not extra and set(missing) == set(nkf):
                # exactly the words inside arguments of declared, unlisted macros are missing, all else as expected
                ok_rest = ''.join(c for w, off in exp if w not in nkf for c in w)
                if ok_rest == got_s:
                    return dict(ok=False, nt=True, key='extract:nested-in-declared-macro-argument', cnt=cnt, obs=None,
                                detail=detail)
            if missing and not extra and set(missing) == set(ukf):
                # exactly the expansions of \newcommand macros used inside listed arguments are missing
                if ''.join(c for w, off in exp if w not in ukf for c in w) == got_s:
                    return dict(ok=False, nt=True, key='extract:newcommand-macro-inside-listed-argument', cnt=cnt,
                                obs=None, detail=detail)
            key = 'extract:text:' + ('leak' if extra else 'missing' if missing else 'order')
            return dict(ok=False, nt=True, key=key, cnt=cnt, obs=None, detail=detail)
        for (c, q), (c2, q2) in zip(obs, want):
            if q2 is not None and q != q2:
                detail['map'] = list(p)
                return dict(ok=False, nt=True, key='extract:position', cnt=cnt, obs=None, detail=detail)
        if err:
            return dict(ok=False, nt=True, key='extract:stderr', cnt=cnt, obs=None, detail=detail)
        return dict(ok=True, nt=bool(exp), key=None, cnt=cnt,
                    obs=dict(src=tex.short(src, 200), extr=extr, plain=tex.short(t, 100)))

    def judge_include(self, case):
        rnd = random.Random(case['vs'])
        if case['kind'] == 'exh3':
            names = ['a.tex', 'b.tex', 'c.tex']
            adj = case['adj']
            files = {names[i]: [names[j] for j in range(3) if adj >> (3 * i + j) & 1] for i in range(3)}
        else:
            k = rnd.randint(4, 8)
            names = ['f%d.tex' % i for i in range(k - 1)] + ['sub/g.tex']
            files = {}
            for f in names:
                files[f] = [rnd.choice(names) for _ in range(rnd.choice([0, 1, 1, 2, 3]))]
        # variants
        for f in files:
            lst = list(files[f])
            rnd.shuffle(lst)
            if lst and rnd.random() < .3:
                lst.append(rnd.choice(lst))      # duplicate reference
            files[f] = lst
        # spelling of the file names: the same (possibly redundant) prefix in every reference and on the command
        # line, so that one file has one name
        pfx = rnd.choice(['', '', '', './', 'sub/../', './/', './sub/../'])
        files = {pfx + f: [pfx + g for g in lst] for f, lst in files.items()}
        pnames = [pfx + f for f in names]
        start = [pnames[0]]
        if rnd.random() < .3:
            start.append(rnd.choice(pnames))
        skip = ''
        if rnd.random() < .35:
            skip = rnd.choice([re.escape(rnd.choice(pnames)), r'.*b\.tex', r'sub/.*', r'[ac]\.tex', 'nomatch',
                               re.escape(pfx) + r'[bc]\.tex', r'\./.*1\.tex',
                               # expressions that match only the beginning of some names: nothing is skipped
                               re.escape(pfx) + 'f', re.escape(pfx) + 'f1', re.escape(pfx) + 'a', re.escape(pfx) + 'su',
                               re.escape(pnames[0][:-2]), re.escape(pfx) + r'[a-c]', re.escape(pfx) + r'f\d'])
        d = tempfile.mkdtemp(dir=self.tmp)
        with_define = False
        skipped = {(f, g) for f in sorted(files) for g in sorted(set(files[f])) if rnd.random() < .2}
        nosp = rnd.random() < .3
        try:
            os.makedirs(os.path.join(d, 'sub'), exist_ok=True)
            for f in names:
                body = ['Text wq \\zzunk{x}.']
                for g in files[pfx + f]:
                    mac = rnd.choice(['\\input', '\\include'])
                    ref = g[:-4] if rnd.random() < .6 else g
                    line = rnd.choice(['', 'wtext ']) + mac + rnd.choice(['{%s}', '{%s}', ' {%s}']) % ref
                    if (pfx + f, g) in skipped:
                        # inside a skipped region: not an inclusion, unless the special comments are switched off
                        line = '%%% LT-SKIP-BEGIN\n' + line + '\n%%% LT-SKIP-END'
                    body.append(line)
                # distractors that must not count
                body.append('%\\input{a}')
                body.append('\\verb|\\input{b}|')
                with open(os.path.join(d, f), 'w') as fp:
                    fp.write('\n'.join(body) + '\n')
            cmd = [env.PY, '-m', 'yalafi.shell', '--no-config', '--include', '--list-unknown']
            if rnd.random() < .3:
                # definitions file that itself inputs a file: not part of the closure of the given files
                with open(os.path.join(d, 'defs.tex'), 'w') as fp:
                    fp.write('\\newcommand{\\ydefd}{x}\n\\input{%s}\n' % pnames[-1][:-4])
                cmd += ['--define', 'defs.tex']
                with_define = True
            if skip:
                cmd += ['--skip', skip]
            if nosp:
                cmd.append('--no-specials')
            cmd += start
            try:
                pr = subprocess.run(cmd, capture_output=True, timeout=180, cwd=d, env=env.child_env())
            except subprocess.TimeoutExpired:
                return dict(ok=True, nt=False, key=None, cnt={'include_timeouts': 1}, obs=None,
                            harness_error='shell run exceeded the wall-clock watchdog (inconclusive)')
        finally:
            shutil.rmtree(d, ignore_errors=True)
        err = pr.stderr.decode('utf-8', 'replace')
        # a reference inside a skipped region is an edge iff the special comments are switched off
        eff = files if nosp else {f: [g for g in lst if (f, g) not in skipped] for f, lst in files.items()}
        want = bfs_model(eff, start, skip)
        cnt = {'include_runs': 1, 'include_' + case['kind']: 1, 'edges': sum(len(v) for v in files.values())}
        if skip:
            cnt['with_skip'] = 1
        if pfx:
            cnt['with_path_prefix'] = 1
        if skipped:
            cnt['with_reference_in_skipped_region'] = 1
        if nosp:
            cnt['with_no_specials'] = 1
        if with_define:
            cnt['with_define_file'] = 1
        if any(f in files[f] for f in files):
            cnt['with_self_inclusion'] = 1
        detail = dict(files=files, start=start, skip=skip, stderr=err[-1500:], want=want, exit=pr.returncode)
        if pr.returncode != 0:
            return dict(ok=False, nt=True, key='include:exit%d' % pr.returncode, cnt=cnt, obs=None, detail=detail)
        m = re.search(r'=== checking for file inclusions \.\.\. (.*)\n', err)
        if not m:
            return dict(ok=False, nt=True, key='include:no-report-line', cnt=cnt, obs=None, detail=detail)
        got = [x for x in m.group(1).split(', ') if x]
        checked = re.findall(r'^=== (.*)$', err[m.end():], re.M)
        detail.update(got=got, checked=checked)
        if got != want:
            if sorted(got) == sorted(want):
                key = 'include:order'
            elif len(got) != len(set(got)):
                key = 'include:file-twice'
            elif set(want) - set(got):
                key = 'include:file-missing'
            else:
                key = 'include:file-extra'
            return dict(ok=False, nt=True, key=key, cnt=cnt, obs=None, detail=detail)
        if checked != want:
            return dict(ok=False, nt=True, key='include:checked-files-differ', cnt=cnt, obs=None, detail=detail)
        return dict(ok=True, nt=cnt['edges'] > 0, key=None, cnt=cnt,
                    obs=dict(files=files, start=start, skip=skip, checked=got))

    def quotas(self, tier):
        q = {'extract_docs': 2000, 'listed_calls': 5000, 'include_runs': 100, 'with_skip': 20, 'extract_with_defs': 300,
             'with_define_file': 15, 'with_path_prefix': 30, 'with_reference_in_skipped_region': 30, 'with_no_specials': 20,
             'with_self_inclusion': 20, 'include_rand': 30}
        for c in ('top', 'unkarg', 'unkenv', 'knownenv', 'removedenv', 'item', 'comment', 'skip', 'verb', 'verbatim', 'group',
                  'cell', 'usermacarg', 'mathtext', 'nested'):
            q['ctx_' + c] = 200
        if tier == 'thorough':
            q['include_exh3'] = 512
        return q

    def extra_evidence(self, counters, tier):
        return {'exhaustive': tier == 'thorough' and counters.get('include_exh3', 0) == 512,
                'exhaustive_subspace': 'all 512 adjacency choices of inclusion graphs on 3 files (thorough tier), '
                                       'one random variant each'}


CHECK = C18
