"""C08 - LaTeX problems yield the full error mark at the right place, and only then.

Single faults of the kinds the statement lists are injected into generated
well-formed documents at printer-known places; stderr, mark, map and surviving
words are judged.  Clean documents must give neither diagnostic nor mark.
"""
import os
import random
import re
import shutil
import tempfile

from .. import core, tex
from ..gen import docs as gdocs

MARK = tex.MARK
HOST_KINDS = ['word', 'word', 'atom', 'unk', 'unkarg', 'unkarg2', 'label', 'index', 'ref', 'cite', 'citeopt',
              'textcolor', 'href', 'emph', 'group', 'usermac', 'usermacopt', 'latexname', 'vanish',
              'footnote', 'section', 'itemize', 'enumerate', 'unkenv', 'proof', 'quad', 'accent', 'verb',
              'framebox', 'ltadd', 'texorpdf', 'theorem', 'caption', 'twice_ext', 'par']
FAULTS = ['inline', 'display', 'verb', 'verb_eot', 'verbatim', 'skip', 'accent', 'ltinput', 'openarg', 'clean']
EXTRA_FAULTS = ['skip0']


def lc(src, off):
    return src.count('\n', 0, off) + 1, off - (src.rfind('\n', 0, off) + 1) + 1


def off_of(src, line, col):
    lines = src.split('\n')
    return sum(len(x) + 1 for x in lines[:line - 1]) + col - 1


class C08(core.Check):
    id = 'C08'
    level = 'fault_enumeration'
    technique = 'runtime monitor: fault injection at printer-known places; stderr / mark / map / surviving-text oracle'
    rule = ('host = generated well-formed document (restricted catalogue, nesting <= 4); one fault of a kind out of '
            '{unterminated $ or \\(, unterminated \\[ / $$ / equation environment, \\verb without end delimiter on its '
            'line / at end of text, verbatim without end, skip comment without end, accent on a digit / punctuation, '
            '\\LTinput of a missing file} inserted at a brace-level-0 insertion point (each point of the document is '
            'used in turn; end-of-text pressure: points within the last 20 characters are favoured), or an open '
            'argument of a declared macro produced by truncating the document inside that argument; plus the clean '
            'host. Judged: first diagnostic at line/column of the fault, complete mark present, first mark character '
            'mapped to the fault, every mark located at a diagnostic, words after the faulty construct preserved, '
            'clean host silent. non-trivial = a fault was injected (or clean host with >= 3 words); distinct = '
            'distinct (document, fault, place)')
    level_text = ('Fault enumeration: seven fault kinds x every insertion point of thousands of generated hosts; the '
                  'oracle needs the exact fault offset, which only the generating printer knows. Particular attention '
                  'to faults within the last 14 characters (the mark must be split to stay in range).')
    level_note = 'Only the enumerated fault kinds; faults are injected at brace level 0 or by truncation.'
    design_ref = 'DESIGN.md section 4, C08'
    assumptions = ['open maths extends to the end of its paragraph; \\verb without delimiter extends to the end of its line',
                   'for an unterminated verbatim environment only mark and diagnostic are judged, not the following text']

    def setup(self, tier):
        self.tmp = tempfile.mkdtemp(prefix='yvm_c08_')
        self.f1 = os.path.join(self.tmp, 'd1.tex')
        self.f2 = os.path.join(self.tmp, 'd2.tex')
        self.f3 = os.path.join(self.tmp, 'd3.tex')
        with open(self.f1, 'w') as f:
            f.write('\\usepackage[dvipsnames]{xcolor}\n\\newcommand{\\ydx}{ydxbody}\n' * 3)
        with open(self.f2, 'w') as f:
            f.write('%% nested\n\\LTinput{%s}\n\\newcommand{\\ydy}{ydybody}\n' % self.f1 + 'x' * 100 + '\n')
        with open(self.f3, 'w') as f:
            f.write('\\newcommand{\\ydz}{ydzbody}\n')
        self.fbin = os.path.join(self.tmp, 'latin1.tex')
        with open(self.fbin, 'wb') as f:
            f.write('\\newcommand{\\ydw}{B\xe4r \xff\xfe}\n'.encode('latin-1'))

    def teardown(self):
        shutil.rmtree(self.tmp, ignore_errors=True)

    def pre(self, k):
        return ['', '', '\\LTinput{%s}\n' % self.f3, '\\LTinput{%s}\n' % self.f1, '\\LTinput{%s}\n' % self.f2,
                '\\usepackage[dvipsnames]{xcolor}\n',
                # the name of a readable file partly given by a macro
                '\\newcommand{\\ydefsdir}{%s}\\LTinput{\\ydefsdir/%s}\n' % (os.path.dirname(self.f3), os.path.basename(self.f3))][k]

    def cases(self, tier, seed, shard, nshards):
        rnd = core.sub_rng('C08', seed, shard)
        n = (20000 if tier == 'quick' else 400000) // nshards
        i = 0
        while i < n:
            ds = rnd.getrandbits(48)
            size = rnd.randint(1, 6)
            lang = rnd.choice(['en', 'en', 'de', 'ru'])
            pre = rnd.randrange(7)
            d = self.host(ds, size, lang, pre)
            pts = d.safe_points + [len(d.src)]
            yield dict(docseed=ds, size=size, lang=lang, pre=pre, fault='clean', at=0, fs=0)
            yield dict(docseed=ds + 1, size=size + 3, lang=lang, pre=pre, fault='clean', at=0, fs=0)
            i += 2
            # every insertion point, one random fault kind each (points near the end twice)
            for k, pt in enumerate(pts):
                reps = 2 if len(d.src) - pt <= 20 else 1
                for _ in range(reps):
                    f = rnd.choice(FAULTS[:-2])
                    yield dict(docseed=ds, size=size, lang=lang, pre=pre, fault=f, at=k, fs=rnd.getrandbits(16))
                    i += 1
            # the unclosed skip comment as the very first thing of the text (offset 0)
            yield dict(docseed=ds, size=size, lang=lang, pre=pre, fault='skip0', at=0, fs=rnd.getrandbits(16))
            i += 1
            for _ in range(3):
                if d.argspans:
                    a = rnd.randrange(len(d.argspans))
                    yield dict(docseed=ds, size=size, lang=lang, pre=pre, fault='openarg', at=a, fs=rnd.getrandbits(16))
                    i += 1

    def host(self, ds, size, lang, pre=0, clean=False):
        # valid documents judged as a whole also contain comments and skipped regions (hidden faults inside them)
        kinds = HOST_KINDS + ['skip', 'skip', 'comment', 'ltskip'] if clean else HOST_KINDS
        return gdocs.random_document(random.Random(ds), size=size, lang=lang, kinds=kinds, max_depth=4,
                                     pack='*,.yvm.ext', end_pressure=0, preamble_extra=self.pre(pre))

    @staticmethod
    def par_end(d, at):
        """offset of the first paragraph break after 'at' that the maths parser sees: blank lines inside the
        argument of a detached-flow macro (footnote, caption) are extracted and do not end the formula"""
        det = [(st, en) for st, en, tag in d.argspans if tag in ('footnote', 'caption')]
        for m in re.finditer(r'\n[ \t]*\n', d.src):
            if m.start() >= at and not any(st < m.start() < en for st, en in det):
                return m.start()
        return len(d.src)

    @staticmethod
    def end_by_par(rnd, d, src, at, end, n, nt=0):
        """the paragraph with the open formula may also be ended by \\par or by an environment that starts a new
        paragraph, at a later top-level point before the next blank line"""
        later = [q for q in d.safe_points if at < q < end]
        if later and rnd.random() < .4:
            q = rnd.choice(later) + n
            brk = rnd.choice(['\\par ', '\\par\n', '\\begin{proof}\\end{proof}', '\\begin{minipage}{3cm}\\end{minipage}',
                              # blank lines of files with CR LF line ends, or with other white space on them
                              '\r\n\r\n', '\n\x0c\n', ' \r\n \r\n', '\n\x0b\n\n'])
            return src[:q] + brk + src[q:], at + nt, q + len(brk)
        return src, at + nt, end + n

    def inject(self, d, case):
        """-> (source, fault offset, swallow-end offset or None (= all following words must survive))"""
        rnd = random.Random(case['fs'])
        src = d.src
        f = case['fault']
        if f == 'openarg':
            st, en, tag = d.argspans[case['at']]
            # truncate inside the argument; the outermost open declared argument is the reported one
            # truncate at the start of the argument or directly after a word in it (never inside \verb)
            ks = [st + 1] + [w_st + len(w) for w, w_st, path in d.words
                             if st < w_st and w_st + len(w) <= en and 'verb' not in path]
            k = rnd.choice(ks)
            open_ = [a for a in d.argspans if a[0] < k <= a[1]]
            foff = min(a[0] for a in open_)
            return src[:k], foff, None
        if f == 'skip0':
            ins = '%%% LT-SKIP-BEGIN' + rnd.choice(['', ' x']) + '\n'
            return ins + src.replace('%%% LT-SKIP-END', '%% LT-SKIP-END'), 0, None
        pts = d.safe_points + [len(src)]
        at = pts[case['at']]
        rest = src[at:]
        tab = ''
        if f in ('inline', 'display', 'verb', 'accent', 'ltinput') and rnd.random() < .3:
            # tabs in front of the fault on its line: the column counts characters
            tab = rnd.choice(['\t', '\t\t', ' \t', '\t'])
        nt = len(tab)
        if f == 'inline':
            ins = tab + rnd.choice(['$', '\\(']) + rnd.choice(['x+y ', 'a_1 ', '\\alpha ', 'f(x) ', 'x'])
            end = self.par_end(d, at)
            return self.end_by_par(rnd, d, src[:at] + ins + rest, at, end, len(ins), nt)
        if f == 'display':
            ins = tab + rnd.choice(['\\[', '$$', '\\begin{equation}', '\\begin{align*}', '\\begin{displaymath}']) + ' x=y '
            end = self.par_end(d, at)
            return self.end_by_par(rnd, d, src[:at] + ins + rest, at, end, len(ins), nt)
        if f == 'verb':
            m = rest.find('\n')
            end = at + m if m >= 0 else len(src)
            delim = rnd.choice([c for c in '|!+=/;' if c not in src[at:end]] or ['\x7f'])
            ins = tab + '\\verb' + delim + rnd.choice(['abc', '', 'a b'])
            return src[:at] + ins + rest, at + nt, end + len(ins)
        if f == 'verb_eot':
            ins = rnd.choice(['\\verb', '\\verb|', '\\verb|ab', '\\verb+x'])
            return src[:at] + ins, at, None
        if f == 'verbatim':
            ins = '\\begin{verbatim}' + rnd.choice([' abc', '', '\nabc\n'])
            return src[:at] + ins + rest.replace('\\end{verbatim}', ''), at, len(src) + len(ins)
        if f == 'skip':
            pre = rnd.choice(['', '', '%hcQ\n', '%hcQ\n  '])      # marker directly below another comment line
            ins = pre + '%%% LT-SKIP-BEGIN' + rnd.choice(['', ' x']) + '\n'
            at += len(pre)
            return src[:at - len(pre)] + ins + rest.replace('%%% LT-SKIP-END', '%% LT-SKIP-END'), at, None
        if f == 'accent':
            ins = tab + rnd.choice(["\\'1", '\\`+', '\\^2', '\\"9', '\\~?', '\\c{3}', '\\v 7']) + ' '
            return src[:at] + ins + rest, at + nt, None
        if f == 'ltinput':
            # unreadable: missing file, a directory, or a file that cannot be decoded in the input encoding
            ins = tab + '\\LTinput{%s} ' % rnd.choice(['/nonexistent/dir/file.tex', self.tmp, self.fbin, self.fbin])
            return src[:at] + ins + rest, at + nt, None
        raise ValueError(f)

    def judge(self, case):
        f = case['fault']
        d = self.host(case['docseed'], case['size'], case['lang'], case.get('pre', 0), clean=f == 'clean')
        cnt = {'fault_' + f: 1, 'preamble_%d' % case.get('pre', 0): 1}
        opts = dict(lang=case['lang'], pack=d.pack)
        if f == 'clean':
            (t, p), err = tex.run(d.src, **opts)
            if err or MARK in t:
                return dict(ok=False, nt=True, key='clean:' + ('diagnostic' if err else 'mark'), cnt=cnt, obs=None,
                            detail=dict(src=d.src, plain=t, stderr=err))
            return dict(ok=True, nt=len(d.words) >= 3, key=None, cnt=cnt, obs=dict(src=tex.short(d.src, 150)))
        src, foff, swallow_end = self.inject(d, case)
        (t, p), err = tex.run(src, **opts)
        diags = tex.diagnostics(err)
        marks = [m.start() for m in re.finditer(MARK, t)]
        detail = dict(src=src, fault=f, fault_offset=foff, fault_line_col=lc(src, foff), plain=t, stderr=err)
        if len(src) - foff <= 14:
            cnt['fault_within_last_14_chars'] = 1
        if not diags:
            return dict(ok=False, nt=True, key='no-diagnostic:' + f, cnt=cnt, obs=None, detail=detail)
        if not marks:
            part = ' LATE' if 'LATE' in t or 'LAT' in t else ''
            return dict(ok=False, nt=True, key='no-complete-mark:' + f + (':truncated' if part else ''), cnt=cnt,
                        obs=None, detail=detail)
        if (diags[0][0], diags[0][1]) != lc(src, foff):
            return dict(ok=False, nt=True, key='diagnostic-position:' + f, cnt=cnt, obs=None, detail=detail)
        dpos = {off_of(src, ln, col) + 1 for ln, col, _ in diags}
        mapped = [p[m] for m in marks]
        if foff + 1 not in mapped:
            detail['mark_positions'] = mapped
            return dict(ok=False, nt=True, key='mark-position:' + f, cnt=cnt, obs=None, detail=detail)
        for m, q in zip(marks, mapped):
            if q not in dpos:
                detail['mark_positions'] = mapped
                detail['diagnostic_positions'] = sorted(dpos)
                return dict(ok=False, nt=True, key='mark-without-diagnostic:' + f, cnt=cnt, obs=None, detail=detail)
        # text preserved
        got = re.findall(r'w[0-9a-z]+[^\WQ]*z', t)
        if f == 'openarg':
            want = [w for w, st, path in d.words if st + len(w) <= len(src)]
            missing = [w for w in want if w not in t]
        else:
            delta = len(src) - len(d.src) if f not in ('verb_eot',) else 0
            before = [w for w, st, path in d.words if st + len(w) <= foff]
            if swallow_end is None:
                after = [w for w, st, path in d.words if st >= foff] if f != 'verb_eot' else []
            else:
                after = [w for w, st, path in d.words if st + delta >= swallow_end]
            if f == 'verbatim':
                after = []
            missing = [w for w in before + after if w not in t]
        cnt['words_required'] = 1
        if missing:
            detail['missing'] = missing[:5]
            return dict(ok=False, nt=True, key='text-lost:' + f, cnt=cnt, obs=None, detail=detail)
        return dict(ok=True, nt=True, key=None, cnt=cnt,
                    obs=dict(src=tex.short(src, 200), fault=f, at=lc(src, foff), stderr=tex.short(err, 100)))

    def quotas(self, tier):
        q = {'fault_' + f: 300 for f in FAULTS + EXTRA_FAULTS}
        q['fault_within_last_14_chars'] = 1000
        return q


CHECK = C08
