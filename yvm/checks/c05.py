"""C05 - text flow is preserved: no paragraph break invented or lost, no words glued.

Oracle (exact, compositional): two unique words with a separator rendered from atoms
whose effect is known; the output between the words is
  (a) white space without a blank line, non-empty iff some white-space run counts
      (a run directly after a control word without arguments or after a comment /
      skip-end line does not count), when the separator holds no paragraph atom;
  (b) white space containing a blank line when it holds one.
"""
import re

from .. import core, tex

WS = [' ', '\n', '  ', '\n  ', ' \n', '\t', ' \n ', '\n\t']
WS_INLINE = [' ', '  ', '\t']
PARS = ['\n\n', '\n \n', '\n\n\n', ' \n\t\n ', '\\par', '\\par ', '\n\\par\n', 'PROOF', 'MINI', 'VERB', 'LST', 'THM',
        '\n\n\n\n', '\n  \n  \n', 'BIB',
        # blank lines in files with CR LF line ends, a form feed on a line of its own
        '\r\n\r\n', '\n\x0c\n', '\r\n \r\n', '\n\x0b\n']

VANISH = ['com', 'label', 'index', 'unk', 'unkarg', 'skip', 'tikz', 'ltskip', 'vanish2', 'unkenv_b', 'unkenv_e',
          'lang', 'xspace', 'vspace', 'ygap', 'ytodo', 'olang', 'ctlsym', 'olangs']
USERDEFS = '\\newcommand{\\ygap}[1]{ }\\newcommand{\\ytodo}[1]{% off\n}\n'


def render(rnd, atoms, lang_ml=False):
    """-> (separator source, counts, haspar)"""
    s = ''
    prev = None
    counts = False
    haspar = False
    xpending = False    # an \xspace waits for its next token
    for k in atoms:
        if xpending and k not in ('ws', 'skip', 'com'):
            # \xspace: a blank unless the next token is in its exception list (of the atoms only \footnotemark);
            # a skipped region is removed before expansion and a comment is not a token of the text: transparent
            xpending = False
            if k == 'vanish2':
                s += '\\footnotemark[1]'
                prev = k
                continue
            counts = True
        if k == 'ws':
            if prev == 'ws':
                continue
            w = rnd.choice(WS if prev not in ('com', 'skip') else WS_INLINE)
            s += w
            if prev not in ('unk', 'com', 'skip'):
                counts = True
        elif k == 'par':
            p = rnd.choice(PARS)
            haspar = True
            if p == 'PROOF':
                p = '\\begin{proof}\\end{proof}'
            elif p == 'MINI':
                p = '\\begin{minipage}{hkQ}\\end{minipage}'
            elif p == 'VERB':
                p = '\\begin{verbatim}\\end{verbatim}'
            elif p == 'LST':
                p = '\\begin{lstlisting}hidQ\\end{lstlisting}'
            elif p == 'THM':
                p = '\\begin{thebibliography}{hQ}\\end{thebibliography}'
            elif p == 'BIB':
                p = '\\begin{yvmkeep}\\end{yvmkeep}'
            if prev in ('com', 'skip') and p[0] == '\n':
                # the comment swallowed its line end: '\n\n' here is one blank line plus ... keep it a paragraph
                p = '\n' + p
            s += p
            if p.endswith('\\par'):
                s += ' '
                k = 'unk'
        elif k == 'com':
            s += '%hid' + str(rnd.randint(0, 9)) + 'Q\n' + rnd.choice(['', '  ', '\t'])
        elif k == 'label':
            s += '\\label{hkQ}'
        elif k == 'index':
            s += '\\index{hkQ hkQ}'
        elif k == 'unk':
            s += rnd.choice(['\\zzfoo', '\\zzbar', '\\maketitle'])
        elif k == 'unkarg':
            s += '\\zzfoo{}'
        elif k == 'skip':
            s += '%%% LT-SKIP-BEGIN\nhidQ den\n\n x%%% LT-SKIP-END\n'
        elif k == 'tikz':
            s += '\\begin{tikzpicture}hidQ\n\nden\\end{tikzpicture}'
        elif k == 'ltskip':
            s += '\\LTskip{hidQ den}'
        elif k == 'vanish2':
            s += rnd.choice(['\\pagestyle{hQ}', '\\vphantom{hQ}', '\\input{hQ}', '\\color{hQ}', '\\notag{}',
                             '\\footnotemark[1]', '\\includegraphics[hQ]{hQ}', '\\lstset{hQ}'])
        elif k == 'unkenv_b':
            s += '\\begin{zzenv}'
        elif k == 'unkenv_e':
            s += '\\end{zzenv}'
        elif k == 'lang':
            s += '\\selectlanguage{english}'
        elif k == 'olang':
            # babel: the end of the environment ignores following blanks like a control word, nothing more
            s += '\\begin{otherlanguage}{' + rnd.choice(['german', 'english', 'french']) + '}' \
                 + rnd.choice(['', '', '%hoQ\n']) + '\\end{otherlanguage}'
            k = 'unk'
        elif k == 'olangs':
            # the starred environment: its end is plain markup (no blanks skipped behind it)
            inner = rnd.choice(['', '', '\n', ' ', '%hoQ\n'])
            s += '\\begin{otherlanguage*}{' + rnd.choice(['german', 'english']) + '}' + inner + '\\end{otherlanguage*}'
            if inner and inner[0] != '%':
                counts = True
        elif k == 'ctlsym':
            # a control symbol: vanishes, but (TeX) blanks behind it are not skipped
            s += rnd.choice(['\\/', '\\/', '\\-', '\\+'])
        elif k == 'vspace':
            # declared macro whose replacement is a blank
            s += rnd.choice(['\\vspace{5mm}', '\\vspace*{1ex}'])
            counts = True
        elif k == 'ygap':
            s += '\\ygap{hgQ}'        # user macro with a blank as body
            counts = True
        elif k == 'ytodo':
            s += '\\ytodo{hgQ}'       # user macro whose body is a comment only
        elif k == 'xspace':
            s += '\\xspace'
            xpending = True
            k = 'unk'
        prev = k
    if xpending:
        counts = True       # the second word follows
    return s, counts, haspar


def last_is_ctrl_word(sep):
    return bool(re.search(r'\\[a-zA-Z]+$', sep))


CONTEXTS = ['top', 'unkarg', 'userarg', 'footnote', 'item', 'heading', 'cell', 'unkenv', 'declarg', 'first', 'last',
            'group', 'straddle_declarg', 'straddle_unkarg', 'straddle_userarg', 'straddle_ctrl', 'twicearg']


def embed(rnd, ctx, wa, sep, wb, haspar):
    """-> (source, expected-in-detached-flow)"""
    pre = 'wpre '
    post = ' wpost'
    core_ = wa + sep + wb
    if ctx == 'top':
        return pre + core_ + post
    if ctx == 'first':
        return core_ + post
    if ctx == 'last':
        return pre + core_
    if ctx == 'unkarg':
        return pre + '\\zzmac{' + core_ + '}' + post
    if ctx == 'group':
        return pre + '{' + core_ + '}' + post
    if ctx == 'userarg':
        return '\\newcommand{\\ym}[1]{yb #1 ye}\n' + pre + '\\ym{' + core_ + '}' + post
    if ctx == 'twicearg':
        # the argument is used twice by the macro: both copies are made of the same tokens
        return '\\newcommand{\\ytw}[1]{#1 ytwmid #1}\n' + pre + '\\ytw{' + core_ + '}' + post
    if ctx == 'declarg':
        return pre + rnd.choice(['\\textcolor{hcQ}{', '\\href{huQ}{', '\\LTadd{', '\\framebox{']) + core_ + '}' + post
    if ctx == 'footnote':
        return pre + '\\footnote{' + core_ + '}' + post
    if ctx == 'item':
        return pre + '\\begin{itemize}\\item ' + core_ + '\n\\end{itemize}' + post
    if ctx == 'heading':
        return pre + '\n\n\\section{' + core_ + '}\n\n' + post
    if ctx == 'cell':
        return pre + '\\begin{tabular}{hQ}x & ' + core_ + ' & y\\end{tabular}' + post
    if ctx == 'unkenv':
        return pre + '\\begin{zzenv}' + core_ + '\\end{zzenv}' + post
    raise ValueError(ctx)


class C05(core.Check):
    id = 'C05'
    level = 'exploration'
    technique = 'runtime monitor: compositional separator model (glue / blank / paragraph rule) on adjacent unique words'
    rule = ('pair: two unique words separated by 0-6 (quick) / 0-10 (thorough) atoms out of white space layouts, '
            'comments, \\label, \\index, unknown macros with/without {}, skipped regions, removed environments, '
            '\\LTskip, declared vanishing macros, \\xspace (with its exception list), unknown-environment delimiters, paragraph atoms (blank lines in '
            'several shapes, \\par, paragraph-forming environments), embedded in %d contexts (top level, arguments of '
            'unknown / user / declared macros, footnote, item, heading, table cell, unknown environment, first / last '
            'line); straddle: the first word (or a control word) ends an argument and the second follows the closing '
            'brace after white space. non-trivial = separator contains at least one vanishing construct or '
            'paragraph atom; distinct = distinct (context, atom sequence, rendered separator)' % len(CONTEXTS))
    level_text = ('Exploration: tens of thousands of generated layouts per run, each judged by an exact compositional '
                  'rule derived from the statement. The blank-line removal pass has separate paths for first/last '
                  'line, multi-newline tokens, pinned and language tokens; the generator aims at these by embedding '
                  'every separator in many contexts.')
    level_note = 'Trusted: the atom semantics (what counts as white space after a control word / comment), 40 lines.'
    design_ref = 'DESIGN.md section 4, C05'
    assumptions = ['a white-space run directly after a control word without arguments, or after a comment / skip-end '
                   'line, does not count (TeX rule quoted by the statement)',
                   'a line break is never placed directly after a comment atom (that would be a genuinely blank line)']

    def cases(self, tier, seed, shard, nshards):
        rnd = core.sub_rng('C05', seed, shard)
        n = (40000 if tier == 'quick' else 1000000) // nshards
        maxa = 6 if tier == 'quick' else 10
        for i in range(n):
            par = rnd.random() < .4
            k = rnd.randint(1 if par else 0, maxa)
            atoms = [rnd.choice(['ws', 'ws', 'ws'] + VANISH) for _ in range(k)]
            if par:
                atoms[rnd.randrange(k)] = 'par'
            ctx = CONTEXTS[(i + shard) % len(CONTEXTS)]
            yield dict(atoms=atoms, ctx=ctx, rs=rnd.getrandbits(32), ml=rnd.random() < .25,
                       lang=rnd.choice(['en', 'en', 'de']))

    def build(self, case):
        import random
        rnd = random.Random(case['rs'])
        atoms = list(case['atoms'])
        ctx = case['ctx']
        ml = case['ml']
        if 'xspace' in atoms:
            atoms = [a for a in atoms if a != 'ctlsym']     # (exception list of \xspace: not modelled)
        if not ml:
            atoms = [a for a in atoms if a != 'lang']
        else:
            atoms = [a for a in atoms if a not in ('olang', 'olangs')]
        if ctx in ('heading', 'cell', 'item', 'footnote') or ctx.startswith('straddle'):
            # no paragraph-forming environments / unbalanced env delimiters inside these arguments
            atoms = [a for a in atoms if a not in ('unkenv_b', 'unkenv_e', 'olang', 'olangs')]
        if atoms.count('unkenv_b') != atoms.count('unkenv_e'):
            atoms = [a for a in atoms if a not in ('unkenv_b', 'unkenv_e')]
        sep, counts, haspar = render(rnd, atoms, ml)
        if last_is_ctrl_word(sep):
            sep += ' '      # swallowed by the control word
        wa, wb = 'wa%dz' % (case['rs'] % 97), 'wb%dz' % (case['rs'] % 89)
        if ctx.startswith('straddle'):
            # wa (or a control word after it) is the last thing inside an argument; separator follows the '}'
            tailctl = ''
            optarg = False
            if ctx == 'straddle_ctrl' or rnd.random() < .4:
                tailctl = rnd.choice([' \\LaTeX', ' \\zzunk', '\\S', ' \\TeX', '\\footnotemark', ' \\footnotemark'])
                optarg = 'footnotemark' in tailctl
            opener = {'straddle_declarg': rnd.choice(['\\textcolor{hcQ}{', '\\href{huQ}{', '\\LTadd{']),
                      'straddle_unkarg': '\\zzmac{', 'straddle_userarg': '\\ym{',
                      'straddle_ctrl': rnd.choice(['\\textcolor{hcQ}{', '\\zzmac{', '\\ym{', '{'])}[ctx]
            pre = '\\newcommand{\\ym}[1]{#1}\n' if '\\ym' in opener else ''
            # a separator that starts directly with a letter-less construct is fine; one that starts with
            # nothing glues the words -- allowed, then counts stays False
            if 'ygap' in atoms or 'ytodo' in atoms:
                pre = USERDEFS + pre
            src = pre + 'wpre ' + opener + wa + tailctl + '}' + sep + wb + ' wpost'
            wa_out = wa
            return src, wa_out, wb, counts, haspar, atoms, tailctl + ('|optarg' if optarg else '')
        if ctx in ('heading', 'cell'):
            # paragraph breaks inside a heading / table cell are not meaningful LaTeX
            if haspar:
                ctx = 'top'
        src = embed(rnd, ctx, wa, sep, wb, haspar)
        if 'ygap' in atoms or 'ytodo' in atoms:
            src = USERDEFS + src
        return src, wa, wb, counts, haspar, atoms, ''

    def judge(self, case):
        src, wa, wb, counts, haspar, atoms, ctl = self.build(case)
        cnt = {'ctx_' + case['ctx']: 1}
        opts = dict(lang=case['lang'], pack='*,.yvm.ext')
        ml = case['ml']
        r, err = tex.run(src, ml=ml, **opts)
        if ml:
            texts = [p[0] for lg in r for p in r[lg]]
        else:
            texts = [r[0]]
        t = next((x for x in texts if wa in x), None)
        nt = any(a != 'ws' for a in atoms)
        detail = dict(src=src, texts=texts, stderr=err, counts=counts, haspar=haspar, atoms=atoms)
        if t is None or wb not in t:
            # multi-language: the pair may be split over parts only by a language switch
            if ml and 'lang' in atoms and any(wb in x for x in texts):
                cnt['ml_split_pair'] = 1
                return dict(ok=True, nt=False, key=None, cnt=cnt, obs=None)
            return dict(ok=False, nt=True, key='word-lost:' + case['ctx'], cnt=cnt, obs=None, detail=detail)
        m = re.search(re.escape(wa) + r'(.*?)' + re.escape(wb), t, re.S)
        if not m:
            return dict(ok=False, nt=True, key='order:' + case['ctx'], cnt=cnt, obs=None, detail=detail)
        between = m.group(1)
        # text generated by the separator itself: titles of paragraph-forming environments, control words
        allowed = ['Proof.', 'Beweis.', 'yvmtitle'] if haspar else []
        for a in allowed:
            between = between.replace(a, '', 1)
        optarg = ctl.endswith('|optarg')
        if optarg:
            ctl = ctl[:-7]
            cnt['straddle_optarg'] = 1
        if ctl:
            # the control word that ends the argument: [blank] + its text + separator
            m2 = re.match(r'(\s*)(LaTeX|TeX|§)', between)
            if m2:
                if bool(m2.group(1)) != ctl.startswith(' '):
                    return dict(ok=False, nt=True, key='blank-before-control-word', cnt=cnt, obs=None, detail=detail)
                between = between[m2.end():]
            elif ctl.startswith(' ') and ('zzunk' in ctl or 'footnotemark' in ctl):
                # no output of its own: its leading blank and the separator merge
                counts = True
        if 'Q' in t:
            return dict(ok=False, nt=True, key='hidden-leak', cnt=cnt, obs=None, detail=detail)
        if err:
            return dict(ok=False, nt=True, key='stderr', cnt=cnt, obs=None, detail=detail)
        cnt['par_obligations' if haspar else 'flow_obligations'] = 1
        first_kind = next((a for a in atoms if a != 'ws'), 'ws-only')
        if between.strip() != '':
            return dict(ok=False, nt=True, key='text-between:' + first_kind, cnt=cnt, obs=None, detail=detail)
        blankline = bool(re.search(r'\n\s*\n', between))
        if haspar:
            if not blankline:
                return dict(ok=False, nt=True, key='paragraph-lost:' + self.par_kind(atoms, src), cnt=cnt, obs=None,
                            detail=detail)
        else:
            if blankline:
                return dict(ok=False, nt=True, key='paragraph-invented:' + first_kind, cnt=cnt, obs=None, detail=detail)
            if counts and not between:
                return dict(ok=False, nt=True,
                            key='glued:' + ('straddle-optarg' if optarg else case['ctx'] if case['ctx'].startswith('straddle')
                                            else first_kind),
                            cnt=cnt, obs=None, detail=detail)
            if not counts and between:
                return dict(ok=False, nt=True, key='space-invented:' + first_kind, cnt=cnt, obs=None, detail=detail)
        if 'com' in atoms or 'skip' in atoms:
            cnt['with_comment_atoms'] = 1
        if ml:
            cnt['ml_pairs'] = 1
        return dict(ok=True, nt=nt, key=None, cnt=cnt, obs=dict(src=tex.short(src, 200), between=between))

    @staticmethod
    def par_kind(atoms, src):
        for k in ('\\par', 'proof', 'minipage', 'verbatim', 'lstlisting', 'thebibliography', 'yvmkeep'):
            if k in src:
                return k.strip('\\')
        return 'blank-line'

    def quotas(self, tier):
        q = {'ctx_' + c: 500 for c in CONTEXTS}
        q.update({'par_obligations': 5000, 'flow_obligations': 10000, 'with_comment_atoms': 2000, 'ml_pairs': 2000})
        return q


CHECK = C05
