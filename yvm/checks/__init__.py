import importlib

def get(cid):
    mod = importlib.import_module('yvm.checks.' + cid.lower())
    return mod.CHECK()
