"""C17 - results do not depend on what was processed before.

Oracle: equality.  Each pool element (document, options) is run alone in a fresh
interpreter (baseline) and inside random call sequences in one interpreter (writers
before readers, repetitions); every in-sequence result must equal the baseline.  A
state-diff monitor names module-level objects a call changed.  Same for consecutive and
concurrent requests to one --as-server process vs a fresh server per request.
"""
import concurrent.futures
import json
import os
import random
import shutil
import socket
import subprocess
import tempfile
import time
import urllib.parse
import urllib.request

from .. import core, env, shellrun
from ..gen import docs as gdocs

GLS = ('\\gls@defglossaryentry{ylab}%\n{%\nname={gname},%\ntext={glstextA},%\nplural={glspluralA},%\n'
       'description={glsdescrA},%\nfirst={first}%\n}%\n')
GLS2 = GLS.replace('glstextA', 'glstextB').replace('glspluralA', 'glspluralB')
SED = 's/\\\\cref{ylab}/Figure~1/g\ns/\\\\Cref{ylab}/Figure~1/g\n'
SED2 = 's/\\\\cref{ylab}/Table~7/g\n'
SED3 = 's/\\\\cref{yother}/Section~3/g\ns/\\\\Cref{yother}/Section~3/g\n'
DEFS = '\\newcommand{\\ydef}[1]{defbody #1}\n'

FILES = {'a.glsdefs': GLS, 'b.glsdefs': GLS2, 'a.sed': SED, 'b.sed': SED2, 'c.sed': SED3, 'defs.tex': DEFS,
         'lang.tex': '\\usepackage[german]{babel}\\selectlanguage{russian}\n',
         'r.txt': '# replacements\nso dass & sodass\n\nybodyx yy & Z\n', 'd.tex': DEFS}


def templates(rnd, u):
    """catalogue of (name, src, opts, ml); u = unique suffix for words"""
    w = lambda k: 'w%s%dz' % (u, k)     # noqa
    T = []

    def add(name, src, ml=False, **opts):
        T.append((name, src, opts, ml))
    add('def-writer', '\\newcommand{\\ya}{bodyA} %s \\ya{} %s' % (w(1), w(2)))
    add('def-reader', '%s \\ya{} %s' % (w(3), w(4)))
    add('def-writer2', '\\def\\ya#1{bodyB #1} \\renewcommand{\\LaTeX}{NOTLATEX} %s \\ya{x} \\LaTeX{} %s' % (w(5), w(6)))
    add('latex-reader', '%s \\LaTeX{} %s' % (w(7), w(8)))
    add('gls-writer', '\\LTinput{a.glsdefs} %s \\gls{ylab} %s' % (w(9), w(10)))
    add('gls-reader', '%s \\gls{ylab} \\glspl{ylab} %s' % (w(11), w(12)))
    add('gls-writer2', '\\LTinput{b.glsdefs} %s \\Gls{ylab} %s' % (w(13), w(14)))
    add('cref-writer', '\\usepackage[poorman]{cleveref}\\YYCleverefInput{a.sed} %s \\cref{ylab} %s' % (w(15), w(16)),
        pack='*,cleveref')
    add('cref-reader', '\\usepackage[poorman]{cleveref} %s \\cref{ylab} %s' % (w(17), w(18)), pack='*,cleveref')
    add('cref-writer2', '\\usepackage[poorman]{cleveref}\\YYCleverefInput{b.sed} %s \\cref{ylab} %s' % (w(19), w(20)),
        pack='*,cleveref')
    # reads a sed file of its own that lacks the label used (error mark when alone)
    add('cref-reader2', '\\usepackage[poorman]{cleveref}\\YYCleverefInput{c.sed} %s \\cref{ylab} \\Cref{yother} %s' % (w(94), w(95)),
        pack='*,cleveref')
    add('theorem-writer', '\\newtheorem{yt}{Ytheorem} \\begin{yt} %s \\end{yt}' % w(21))
    add('theorem-reader', '\\begin{yt} %s \\end{yt} %s' % (w(22), w(23)))
    add('babel-writer', '\\usepackage[german]{babel} %s "a \\selectlanguage{russian} $x$ %s' % (w(24), w(25)), ml=True,
        lang='en-GB')
    add('babel-reader', '%s "a $x$ \\foreignlanguage{german}{%s "o} %s' % (w(26), w(27), w(28)), ml=True, lang='en-GB')
    add('babel-reader-single', '%s "a $x$ %s' % (w(29), w(30)), lang='en')
    add('de-writer', '%s "a "` $x$ $y$ $z$ %s' % (w(31), w(32)), lang='de')
    add('formulas-writer', ' '.join('$a_%d$' % k for k in range(rnd.randint(1, 9))) + ' ' + w(33)
        + ' \\begin{equation} a=b \\end{equation} \\[ c \\]')
    add('formulas-reader', '%s $y$ %s \\[ x=y. \\] $z$' % (w(34), w(35)))
    add('enum-writer', '\\begin{enumerate}\\item %s \\begin{enumerate}\\item %s \\item %s' % (w(36), w(37), w(38)))
    add('enum-reader', '\\begin{enumerate}\\item %s \\item %s \\end{enumerate} \\item %s' % (w(39), w(40), w(41)))
    add('nosp-writer', '%%%%%% LT-SKIP-BEGIN\n%s\n%%%%%% LT-SKIP-END\n\\LTadd{%s} \\LTskip{%s}' % (w(42), w(43), w(44)),
        nosp=True)
    add('nosp-reader', '%%%%%% LT-SKIP-BEGIN\n%s\n%%%%%% LT-SKIP-END\n\\LTadd{%s} \\LTskip{%s}' % (w(45), w(46), w(47)))
    add('extr-writer', '\\section{%s} %s \\footnote{%s}' % (w(48), w(49), w(50)), extr='section,footnote')
    add('extr-reader', '\\section{%s} %s \\footnote{%s} \\textcolor{red}{%s}' % (w(51), w(52), w(53), w(54)))
    add('pack-writer', '\\begin{align} a &= b \\text{%s} \\end{align} \\eqref{k} %s' % (w(55), w(56)), pack='amsmath')
    add('pack-reader', '\\begin{align} a &= b \\text{%s} \\end{align} \\eqref{k} \\textcolor{red}{%s}' % (w(57), w(58)),
        pack='')
    # packages that change the tables of the maths parser (\text as text macro, Unicode operators)
    add('pack-writer3', '\\usepackage{unicode-math} %s \\begin{eqnarray} a & \u2264 & b \\end{eqnarray}' % w(96), pack='')
    add('pack-reader3', '%s $x = y \\text{ %s } y$ \\begin{eqnarray} a & \u2264 & b \\\\ c & \u2192 & d \\end{eqnarray}' % (w(97), w(98)),
        pack='')
    add('pack-reader4', '%s \\(u \\text{%s}\\) \\[ a \\text{%s} b \\]' % (w(99), w(100), w(101)), pack='xcolor')
    add('pack-reader2', '\\begin{proof} %s \\end{proof} \\cite[a]{k} \\gls{x}' % w(59), pack='xcolor')
    add('dcls-writer', '\\documentclass[ngerman]{scrartcl}\\usepackage{babel} \\KOMAoptions{a} %s "a' % w(60), ml=True,
        dcls='scrartcl', lang='en-GB')
    add('dcls-reader', '\\usepackage{babel} \\KOMAoptions{a} %s "a' % w(61), ml=True, lang='en-GB')
    add('defs-writer', '%s \\ydef{x} %s' % (w(62), w(63)), defs=DEFS)
    add('defs-reader', '%s \\ydef{x} %s' % (w(64), w(65)))
    add('ltinput-lang-writer', '\\LTinput{lang.tex} %s "a $x$ %s' % (w(66), w(67)), ml=True, lang='en-GB')
    add('seqs-writer', '\\[ a=b, \\] %s \\begin{equation} c \\end{equation}' % w(68), seqs=True)
    add('repl-writer', '%s so dass %s' % (w(69), w(70)), repl=['so dass & sodass\n'])
    add('repl-reader', '%s so dass %s' % (w(71), w(72)))
    add('replfile-writer', '%s so dass %s' % (w(84), w(85)), repl_file='r.txt')
    add('replfile-reader', '%s so dass %s so dass' % (w(86), w(87)), repl_file='r.txt')
    add('replfile-reader2', '%s so dass %s' % (w(88), w(89)), repl_file='r.txt', ml=True, lang='en-GB')
    add('defsfile-writer', '%s \\ydef{x} \\renewcommand{\\ydef}[1]{changed} %s' % (w(90), w(91)), defs_file='d.tex')
    add('defsfile-reader', '%s \\ydef{y} %s' % (w(92), w(93)), defs_file='d.tex')
    # a file that is read by several calls and re-written in between (LaTeX runs while a server is up): every call
    # sees the contents the file has at that moment
    add('filever-writer', '\\LTinput{v.glsdefs} %s \\gls{ylab} %s' % (w(102), w(103)), _files={'v.glsdefs': GLS})
    add('filever-reader', '\\LTinput{v.glsdefs} %s \\gls{ylab} \\glspl{ylab} %s' % (w(104), w(105)), _files={'v.glsdefs': GLS2})
    add('filever-writer2', '\\usepackage[poorman]{cleveref}\\YYCleverefInput{v.sed} %s \\cref{ylab} %s' % (w(106), w(107)),
        pack='*,cleveref', _files={'v.sed': SED})
    add('filever-reader2', '\\usepackage[poorman]{cleveref}\\YYCleverefInput{v.sed} %s \\cref{ylab} %s' % (w(108), w(109)),
        pack='*,cleveref', _files={'v.sed': SED2})
    add('filever-reader3', '\\LTinput{v.tex} %s \\yver{} %s' % (w(110), w(111)), _files={'v.tex': '\\newcommand{\\yver}{versionA}\n'})
    add('filever-reader4', '\\LTinput{v.tex} %s \\yver{} %s' % (w(112), w(113)), _files={'v.tex': '\\newcommand{\\yver}{versionB}\n'})
    add('unkn-writer', '\\zzunkA %s \\begin{zzenvA} \\zzunkB' % w(73), unkn=True)
    add('unkn-reader', '\\zzunkC %s \\zzunkA' % w(74), unkn=True)
    add('error-writer', '%s $x \\verb|a' % w(75))
    add('unklang-writer', '\\usepackage{babel} %s \\foreignlanguage{latin}{%s} \\selectlanguage{austrian} %s'
        % (w(77), w(78), w(79)), ml=True, lang='en-GB')
    add('unklang-reader', '\\usepackage[ngerman,latin]{babel} %s "a %s' % (w(80), w(81)), ml=True, lang='en-GB')
    add('unklang-reader2', '\\documentclass[ngerman,austrian]{article}\\usepackage{babel} %s "a %s' % (w(82), w(83)),
        ml=True, lang='en-GB', dcls='article')
    add('item-writer', '\\begin{itemize}\\item[%s] x \\begin{enumerate}\\item y' % w(76))
    d = gdocs.random_document(rnd, size=rnd.randint(2, 5), max_depth=3, pack='*,.yvm.ext')
    add('generated-doc', d.src, pack='*,.yvm.ext')
    add('generated-doc-ml', d.src, ml=True, pack='*,.yvm.ext', lang='en-GB')
    return T


class C17(core.Check):
    id = 'C17'
    level = 'exploration'
    technique = 'runtime monitor: history-independence oracle (in-sequence result == fresh-process result) with a state-diff monitor nominating writers'
    rule = ('pool: 6-12 (document, options) pairs per case drawn from a catalogue of %d state-carrying templates (writer / '
            'reader pairs for definitions, glossary files, cleveref sed files, theorem definitions, babel options and '
            'language switches, formula rotation, enumerations, --nosp, --extr, --pack / --dcls / --defs / --seqs / '
            '--repl / --unkn differences, replacement and definition files read once per process and shared by all calls, error recovery) plus generated documents; baseline: each element alone in a '
            'fresh interpreter; history: a random sequence of 4-30 calls over the pool in one interpreter, with every '
            'writer before its reader at least once and immediate repetitions. server: 6-10 requests to one --as-server '
            'process (sequential and 8 concurrent clients) vs a fresh server per request. Judged: equality of '
            '(text, map | parts, stderr). non-trivial = sequence of >= 2 calls; distinct = distinct (pool, sequence)'
            % 51)
    level_text = ('Exploration over call histories: independence from history is a statement about all call sequences; '
                  'each case compares every call of a random sequence with the same call in a fresh process, and the '
                  'pool is built from pairs designed to carry state from a writer to a reader. The state-diff monitor '
                  'reports which module-level objects calls changed (observed, not asserted).')
    level_note = 'State kept by the fake proofreader or the operating system is outside the system; sequences are sampled.'
    design_ref = 'DESIGN.md section 4, C17'
    assumptions = ['files read by a document (glossary, sed, definition files) are part of its input and kept constant']

    nshards_quick = 16
    nshards_thorough = 64
    budget_quick = 900
    budget_thorough = 6000

    def setup(self, tier):
        self.tmp = tempfile.mkdtemp(prefix='yvm_c17_')
        self.base_cache = {}

    def teardown(self):
        shutil.rmtree(self.tmp, ignore_errors=True)

    def cases(self, tier, seed, shard, nshards):
        rnd = core.sub_rng('C17', seed, shard)
        n = (320 if tier == 'quick' else 6000) // nshards
        for i in range(n):
            yield dict(fam='seq', s=rnd.getrandbits(48))
        ns = (6 if tier == 'quick' else 40)
        for k in range(ns):
            if k % nshards == shard:
                yield dict(fam='server', s=rnd.getrandbits(48), concurrent=bool(k % 2))

    # ------------------------------------------------------------------
    def run_seq(self, d, items, order):
        spec = os.path.join(d, 'spec.json')
        with open(spec, 'w') as f:
            json.dump({'items': items, 'order': order}, f)
        pr = subprocess.run([env.PY, '-m', 'yvm.seqrun', spec], cwd=d, env=env.child_env(), capture_output=True,
                            timeout=600)
        if pr.returncode != 0:
            raise RuntimeError('seqrun failed: ' + pr.stderr.decode()[-800:])
        return json.loads(pr.stdout.decode('utf-8'))

    def judge(self, case):
        if case['fam'] == 'server':
            return self.judge_server(case)
        rnd = random.Random(case['s'])
        T = templates(rnd, 'q')
        # choose writer/reader groups
        groups = {}
        for t in T:
            groups.setdefault(t[0].split('-')[0], []).append(t)
        chosen = []
        for g in rnd.sample(sorted(groups), rnd.randint(3, 6)):
            chosen += groups[g]
        chosen = chosen[:12]
        items = [dict(name=n, src=s, opts=o, ml=m) for n, s, o, m in chosen]
        k = len(items)
        # sequence: writers before readers once, then random with repetitions
        order = list(range(k))
        extra = [rnd.randrange(k) for _ in range(rnd.randint(0, 18))]
        order += extra
        if rnd.random() < .5:
            rnd.shuffle(order)
        if rnd.random() < .5:
            j = rnd.randrange(len(order))
            order.insert(j, order[j])          # immediate repetition
        d = tempfile.mkdtemp(dir=self.tmp)
        fresh = 0
        try:
            for fn, content in FILES.items():
                with open(os.path.join(d, fn), 'w') as f:
                    f.write(content)
            base = {}
            for i in sorted(set(order)):
                ck = json.dumps([items[i]['src'], items[i]['opts'], items[i]['ml']], sort_keys=True)
                if ck not in self.base_cache:
                    # the same call alone in a fresh interpreter (cached per worker: the call is a pure input)
                    self.base_cache[ck] = self.run_seq(d, items, [i])[0]
                    fresh += 1
                base[i] = dict(self.base_cache[ck], item=i)
            seq = self.run_seq(d, items, order)
        finally:
            shutil.rmtree(d, ignore_errors=True)
        cnt = {'fam_seq': 1, 'calls_in_sequences': len(order), 'baselines': len(base), 'fresh_process_runs': fresh}
        writers = set()
        for pos, r in enumerate(seq):
            for c in r['changed']:
                writers.add(c)
            b = base[r['item']]
            same = (r['result'], r['stderr'], r['exception']) == (b['result'], b['stderr'], b['exception'])
            if not same:
                name = items[r['item']]['name']
                prev = [items[x['item']]['name'] for x in seq[:pos]]
                # mechanism: which earlier call kinds are in the history, and what the state monitor saw change
                changed_before = sorted({c for x in seq[:pos] for c in x['changed']})
                detail = dict(call=name, position=pos, history=prev, in_sequence=r, fresh=b,
                              state_changed_before=changed_before, item=items[r['item']])
                return dict(ok=False, nt=True, key='history-dependent:' + name.split('-')[0], cnt=cnt, obs=None,
                            detail=detail)
        for wname in writers:
            cnt['state_changed:' + wname.split(':', 1)[1][:60]] = 1
        for it in items:
            cnt['tpl_' + it['name'].split('-')[0]] = 1
        return dict(ok=True, nt=len(order) >= 2, key=None, cnt=cnt,
                    obs=dict(sequence=[items[i]['name'] for i in order][:12], state_changed=sorted(writers)[:5]))

    # ------------------------------------------------------------------
    def start_server(self, d, ml=False):
        """-> (server process, port) or (None, None)"""
        def make_cmd(port):
            cmd = [env.PY, '-m', 'yalafi.shell', '--no-config', '--as-server', str(port), '--lt-command',
                   '%s -S %s' % (env.PY, shellrun.FAKELT), '--packages', '*,cleveref', '--replace', 'r.txt',
                   '--define', 'd.tex', '--lt-options', '~--disable SRVRULE --enablecategories SRVCAT']
            if ml:
                cmd += ['--multi-language', '--language', 'en-GB']
            return cmd
        planf = os.path.join(d, 'plan.json')
        if not os.path.exists(planf):
            with open(planf, 'w') as f:
                json.dump({'mode': 'words', 'regex': r'w\w*z|LATEXXXERROR|\S+'}, f)
        return shellrun.launch_server(
            make_cmd, d, lambda port: env.child_env({'YVM_LT_PLAN': planf, 'YVM_LT_LOG': os.path.join(d, 'lt%d.log' % port)}),
            os.path.join(d, 'server.stderr'))

    @staticmethod
    def write_files(d, opts):
        for fn, content in (opts.get('_files') or {}).items():
            with open(os.path.join(d, fn), 'w', encoding='utf-8') as f:
                f.write(content)

    @staticmethod
    def lt_calls(d, port):
        """request log of the fake proofreader of one server lifetime: [{argv, text}]"""
        fn = os.path.join(d, 'lt%d.log' % port)
        out = []
        if os.path.exists(fn):
            for ln in open(fn, encoding='utf-8'):
                try:
                    e = json.loads(ln)
                except ValueError:
                    continue
                # the input file name is a temporary name
                e['argv'] = [a for a in e.get('argv', []) if not a.startswith('/tmp') and 'tmp' not in a]
                out.append(e)
        return out

    def post(self, port, src, lang, fields=None):
        data = urllib.parse.urlencode(dict({'text': src, 'language': lang}, **(fields or {}))).encode('ascii')
        try:
            with urllib.request.urlopen('http://localhost:%d/v2/check' % port, data=data, timeout=120) as rp:
                ms = json.loads(rp.read().decode('utf-8'))['matches']
        except (OSError, ValueError, KeyError) as e:
            # no answer / an error answer is an observation, too (compared with the fresh server)
            return [('no-valid-answer', type(e).__name__, str(e)[:80])]
        return [(m['offset'], m['length'], m['message'].split(':', 1)[1]) for m in ms]

    def judge_server(self, case):
        rnd = random.Random(case['s'])
        mlsrv = case['s'] % 2 == 0       # server in multi-language mode: short foreign parts are submitted on their own
        T = [t for t in templates(rnd, 'q') if (not t[3] or mlsrv) and set(t[2]) <= {'pack', 'lang', '_files'}
             and not (case['concurrent'] and '_files' in t[2])]
        if mlsrv:
            T.append(('shortpart-writer', 'wq201z \\foreignlanguage{german}{wq202z} wq203z wq204z', {}, True))
            T.append(('shortpart-reader', 'wq205z wq206z wq207z wq208z \\foreignlanguage{german}{wq202z} wq209z', {}, True))
        rnd.shuffle(T)
        items = T[:rnd.randint(6, 10)]
        # keep writer/reader pairs together where possible
        names = {t[0] for t in items}
        for t in T:
            if t[0].endswith('reader') and t[0].replace('reader', 'writer') in names and t[0] not in names:
                items.append(t)
        d = tempfile.mkdtemp(dir=self.tmp)
        cnt = {'fam_server': 1}
        if mlsrv:
            cnt['server_multi_language'] = 1
        try:
            for fn, content in FILES.items():
                with open(os.path.join(d, fn), 'w') as f:
                    f.write(content)
            base = []
            # some requests carry rule options of their own (they override the start-up --lt-options for this
            # request only)
            fields = [rnd.choice([None, None, {'disabledRules': 'REQRULE%d' % k}, {'enabledCategories': 'REQCAT'},
                                  {'disabledRules': 'REQA,REQB', 'enabledRules': 'REQE'}]) for k in range(len(items))]
            base_argv = []
            for k, (name, src, opts, ml) in enumerate(items):
                srv, port = self.start_server(d, mlsrv)
                if srv is None:
                    return dict(ok=True, nt=False, key=None, cnt={'server_not_up': 1}, obs=None,
                                harness_error='server did not come up')
                try:
                    self.write_files(d, opts)
                    base.append(self.post(port, src, 'en-GB', fields[k]))
                finally:
                    srv.terminate()
                    srv.wait(timeout=10)
                base_argv.append(self.lt_calls(d, port))
            srv, port = self.start_server(d, mlsrv)
            if srv is None:
                return dict(ok=True, nt=False, key=None, cnt={'server_not_up': 1}, obs=None,
                            harness_error='server did not come up')
            try:
                order = list(range(len(items))) + [rnd.randrange(len(items)) for _ in range(6)]
                if case['concurrent']:
                    with concurrent.futures.ThreadPoolExecutor(8) as ex:
                        got = list(ex.map(lambda i: (i, self.post(port, items[i][1], 'en-GB', fields[i])), order))
                else:
                    got = []
                    for i in order:
                        self.write_files(d, items[i][2])
                        got.append((i, self.post(port, items[i][1], 'en-GB', fields[i])))
            finally:
                srv.terminate()
                srv.wait(timeout=10)
            seq_argv = self.lt_calls(d, port)
        finally:
            shutil.rmtree(d, ignore_errors=True)
        for pos, (i, res) in enumerate(got):
            if res != base[i]:
                return dict(ok=False, nt=True, key='server:history-dependent:' + items[i][0].split('-')[0], cnt=cnt,
                            obs=None, detail=dict(request=items[i][0], position=pos,
                                                  history=[items[j][0] for j, _ in got[:pos]],
                                                  in_sequence=res, fresh_server=base[i], src=items[i][1]))
        # what the proofreader was called with: per submitted text the same options as on a fresh server
        want = {}
        for k, calls in enumerate(base_argv):
            for cl in calls:
                want.setdefault(cl['text'], set()).add(json.dumps(cl['argv']))
        for cl in seq_argv:
            if cl['text'] in want and json.dumps(cl['argv']) not in want[cl['text']]:
                return dict(ok=False, nt=True, key='server:history-dependent:proofreader-options', cnt=cnt, obs=None,
                            detail=dict(text=cl['text'][:200], in_sequence=cl['argv'],
                                        fresh_server=sorted(want[cl['text']]), fields=fields,
                                        requests=[items[i][0] for i, _ in got]))
        cnt['server_proofreader_calls_compared'] = len(seq_argv)
        if any(fields):
            cnt['server_requests_with_rule_fields'] = sum(1 for i, _ in got if fields[i])
        cnt['server_requests_compared'] = len(got)
        if case['concurrent']:
            cnt['server_concurrent_runs'] = 1
        return dict(ok=True, nt=True, key=None, cnt=cnt, obs=dict(requests=[items[i][0] for i, _ in got][:10]))

    def quotas(self, tier):
        return {'fam_seq': 150, 'calls_in_sequences': 2000, 'baselines': 1000, 'fresh_process_runs': 300, 'server_requests_compared': 30, 'server_proofreader_calls_compared': 30, 'server_requests_with_rule_fields': 10,
                'server_concurrent_runs': 1, 'tpl_gls': 20, 'tpl_def': 20, 'tpl_cref': 20, 'tpl_pack': 20,
                'tpl_formulas': 20, 'tpl_babel': 20, 'tpl_filever': 20}


CHECK = C17
