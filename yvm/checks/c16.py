"""C16 - HTML report: faithful source, each match once, content cannot break the markup.

The report is parsed back with html.parser (independent reader) and compared with the
source: rows = source lines with right numbers, every match highlighted exactly once (in
place or in the overlap list) with the source span it maps to, tag / attribute whitelist.
Direct calls of genhtml.generate_html (volume) and the real shell --output html.
"""
import collections
import random
import re
import shutil
import tempfile

from .. import core, tex, shellrun, htmlreport
from yalafi.shell import genhtml
from yalafi import tex2txt


class V:
    pass


def json_get(d, k, t):
    if not isinstance(d, dict) or not isinstance(d.get(k), t):
        raise SystemExit(1)
    return d[k]


PIECES = ['alpha', 'beta', '<b>', '&amp;', '"q"', 'x', '\t', '', 'Ärger', 'a>b', '</td>', '<br>', '&', '<span title="x">',
          "it's", '\\textbf{bold}', '\\', '\\alpha', '%c', '𝔸', '&ensp;', '<!--', '-->', ' ', 'xx  yy', ']]>', '<script>',
          # characters that str.splitlines() treats as line ends but that are not line ends of the file
          '\x0c', 'a\x0bb', '\x1c', '\x85', 'c\u2028d', '\u2029', '\x1e']


def gen_source(rnd):
    nl = rnd.randint(1, 14) if rnd.random() < .8 else rnd.randint(15, 80)
    lines = []
    for i in range(nl):
        r = rnd.random()
        if r < .1:
            lines.append('')
        elif r < .13:
            lines.append('long ' * rnd.randint(200, 1000))
        else:
            lines.append(' '.join(rnd.choice(PIECES) for _ in range(rnd.randint(0, 7))))
    return '\n'.join(lines) + '\n'


def gen_matches(rnd, n):
    """(offset, length) pairs incl. overlapping, adjacent, nested, multi-line, zero-length, first / last char"""
    ms = []
    k = rnd.randint(0, 7) if n < 1500 else rnd.randint(2, 12)
    for _ in range(k):
        o = rnd.randrange(0, n)
        ln = rnd.choice([0, 1, 1, 2, 3, 5, 10, 30, 80])
        ms.append([o, min(ln, n - o)])
    if ms and rnd.random() < .5:
        o, ln = rnd.choice(ms)
        ms.append([o, ln])                                  # identical place
        ms.append([min(n - 1, o + ln), min(2, n - min(n - 1, o + ln))])     # adjacent
        ms.append([o, max(1, ln // 2)])                     # nested
    if rnd.random() < .3:
        ms.append([0, 1])
    if rnd.random() < .3:
        ms.append([n - 1, 1])
    ms.sort()
    return ms


def expected_span(tex_, o, ln):
    beg = o
    end = o + max(1, ln)
    if end - beg == 1 and tex_[beg] == '\\':
        m = re.match(r'\\[A-Za-z]+', tex_[beg:])
        if m and beg < len(tex_) - 1:
            end = beg + len(m.group(0))
    return beg, min(end, len(tex_))


def check_report(html_text, tex_, matches, context, msgid, cnt, loose=()):
    """matches: list of (offset, length, id); loose: ids of matches that must be shown exactly once, without a
    statement about the highlighted characters; -> (key, detail) or None"""
    rep = htmlreport.parse(html_text)
    if rep.bad:
        return 'markup:' + str(rep.bad[0][0]), dict(problems=rep.bad[:3])
    src = tex_.split('\n')
    nlines = len(src) - 1 if tex_.endswith('\n') else len(src)
    seen = []
    main_tables = [t for t, k in rep.tables_kind.items() if k == 'main']
    for table, num, content, ids in rep.rows:
        if rep.tables_kind.get(table) != 'main':
            continue
        num = num.replace('\xa0', '').strip()
        if not num:
            continue
        if not num.isdecimal():
            return 'row:number', dict(number=num)
        ln = int(num)
        seen.append(ln)
        if not 1 <= ln <= max(nlines, 1):
            return 'row:number-out-of-file', dict(number=ln, lines=nlines)
        exp = src[ln - 1].replace('\t', ' ' * 8)
        got = htmlreport.norm(content.rstrip('\n'))
        if got != exp:
            return 'row:text', dict(line=ln, got=got[:200], want=exp[:200])
    cnt['rows_checked'] = cnt.get('rows_checked', 0) + len(seen)
    if len(seen) != len(set(seen)):
        return 'row:line-twice', dict(lines=seen[:50])
    if seen != sorted(seen):
        return 'row:order', dict(lines=seen[:50])
    if context >= 10 ** 6 and matches and seen != list(range(1, nlines + 1)):
        return 'row:whole-file', dict(lines=seen[:50], nlines=nlines)
    # every match once
    byid = collections.defaultdict(list)
    for title, text, table, lineno, style in rep.spans:
        m = re.match(msgid, title or '')
        if m:
            byid[m.group(1)].append((htmlreport.norm(text), table, lineno, title))
    for o, ln, mid in matches:
        got = byid.get(mid)
        if not got:
            return 'match:missing', dict(match=[o, ln, mid])
        kinds = {rep.tables_kind.get(t) for _, t, _, _ in got}
        if len(kinds) != 1:
            return 'match:twice', dict(match=[o, ln, mid], where=sorted(map(str, kinds)))
        txt = ''.join(t for t, _, _, _ in got)
        b, e = expected_span(tex_, o, ln)
        exp = tex_[b:e].replace('\t', ' ' * 8)
        if txt.replace('\n', '') != exp.replace('\n', ''):
            return 'match:highlighted-text', dict(match=[o, ln, mid], got=txt[:120], want=exp[:120])
        if 'main' in kinds:
            want_line = tex_.count('\n', 0, b) + 1
            first = got[0][2].replace('\xa0', '').strip()
            if first != str(want_line):
                return 'match:row', dict(match=[o, ln, mid], row=first, want=want_line)
            cnt['matches_in_place'] = cnt.get('matches_in_place', 0) + 1
        else:
            cnt['matches_in_overlap_list'] = cnt.get('matches_in_overlap_list', 0) + 1
        if len(got) > 1:
            cnt['matches_split_over_lines'] = cnt.get('matches_split_over_lines', 0) + 1
    for mid in loose:
        got = byid.get(mid)
        if not got:
            return 'match:missing', dict(match=mid, kind='positions not in source order')
        if len({rep.tables_kind.get(t) for _, t, _, _ in got}) != 1:
            return 'match:twice', dict(match=mid)
        cnt['matches_with_unordered_positions'] = cnt.get('matches_with_unordered_positions', 0) + 1
    extra = set(byid) - {mid for _, _, mid in matches} - set(loose)
    if extra:
        return 'match:unknown-highlight', dict(ids=sorted(extra)[:5])
    return None


class C16(core.Check):
    id = 'C16'
    level = 'exploration'
    technique = 'runtime monitor: HTML report parsed back by an independent reader and compared with source and match set'
    rule = ('sources of 1-14 lines over %d pieces (HTML-special characters, markup look-alikes, tabs, empty lines, '
            'lines of several thousand characters, non-ASCII, backslash macros) x match sets of 0-10 in-range matches '
            '(overlapping, identical, adjacent, nested, multi-line, zero-length, first / last character) with hostile '
            'messages / rule ids / suggestions x context -1, 0, 1, 2, 5, 10; direct: genhtml.generate_html with an '
            'identity map; shell: the real shell with --plain-input and with LaTeX documents, one or several files '
            '(index page). non-trivial = at least one match; distinct = distinct (source, matches, context)' % len(PIECES))
    level_text = ('Exploration: region grouping, overlap handling and span-per-line splitting are reached only with several '
                  'interacting matches, escaping only with hostile content; thousands of random (source, match set, '
                  'context) triples per run are rendered and read back.')
    level_note = '--link URLs and file names are outside the statement (observed unescaped; remark only).'
    design_ref = 'DESIGN.md section 4, C16'
    assumptions = ['matches are delivered sorted by position, as the shell does']

    def setup(self, tier):
        self.tmp = tempfile.mkdtemp(prefix='yvm_c16_')
        v = V()
        v.json_get = json_get
        v.cmdline = V()
        v.cmdline.context = 2
        v.cmdline.link = False
        v.highlight_style = 'background: orange; border: solid thin black'
        v.number_style = 'color: grey'
        v.msg_LT_server_html = ''
        genhtml.init(v)
        self.v = v

    def teardown(self):
        shutil.rmtree(self.tmp, ignore_errors=True)

    def cases(self, tier, seed, shard, nshards):
        rnd = core.sub_rng('C16', seed, shard)
        n = (20000 if tier == 'quick' else 300000) // nshards
        nsh = (320 if tier == 'quick' else 4000) // nshards
        for i in range(n):
            yield dict(fam='direct', s=rnd.getrandbits(48), ctx=rnd.choice([-1, 0, 1, 2, 5, 10]))
        for i in range(nsh):
            yield dict(fam='shell', s=rnd.getrandbits(48), ctx=rnd.choice([-1, 0, 1, 2, 5]),
                       files=rnd.choice([1, 1, 2, 2, 3]), latex=rnd.random() < .3)
        for i in range(nsh // 2):
            yield dict(fam='shellml', s=rnd.getrandbits(48), ctx=rnd.choice([-1, 0, 2]))

    def judge_shellml(self, case, cnt):
        """multi-language run with the shell's own checks: several separately checked parts; every own message is
        highlighted exactly once, at the isolated letter it is about (also in the second and later parts)"""
        from .c20 import gen_shelltex, model_single
        src, regions, eqs = gen_shelltex(random.Random(case['s']), cnt)
        args = ['--output', 'html', '--context', str(case['ctx']), '--multi-language', '--language', 'en-GB',
                '--packages', '*', '--single-letters', 'A|I||', 'f.tex']
        r = shellrun.run_shell(args, {'f.tex': src}, {'mode': 'empty'}, workdir=self.tmp)
        if r.timed_out:
            return dict(ok=True, nt=False, key=None, cnt={'timeouts': 1}, obs=None, harness_error='watchdog')
        detail = dict(src=src, stderr=r.err[-600:])
        if r.rc != 0:
            return dict(ok=False, nt=True, key='shellml:exit%s' % r.rc, cnt=cnt, obs=None, detail=detail)
        rep = htmlreport.parse(r.out.decode('utf-8'))
        want = collections.Counter()
        for st, txt in regions:
            for k in model_single(txt, 'A|I'):
                o = st + k
                want[(src.count('\n', 0, o) + 1, src[o])] += 1
        got = collections.Counter()
        for title, text, table, lineno, style in rep.spans:
            if htmlreport.norm(title or '').startswith('Single letter detected.'):
                got[(int(lineno.replace('\xa0', '').strip() or 0), htmlreport.norm(text))] += 1
        if got != want:
            detail.update(highlighted=sorted(got.elements()), expected=sorted(want.elements()))
            return dict(ok=False, nt=True, key='shellml:own-message-highlight', cnt=cnt, obs=None, detail=detail)
        cnt['shellml_reports'] = 1
        cnt['shellml_own_messages'] = sum(want.values())
        return dict(ok=True, nt=bool(want), key=None, cnt=cnt, obs=dict(src=tex.short(src, 150), letters=sum(want.values())))

    def judge(self, case):
        rnd = random.Random(case['s'])
        ctx = case['ctx'] if case['ctx'] >= 0 else int(1e8)
        cnt = {'fam_' + case['fam']: 1}
        if case['fam'] == 'shellml':
            return self.judge_shellml(case, cnt)
        if case['fam'] == 'direct':
            tex_ = gen_source(rnd)
            n = len(tex_)
            pairs = gen_matches(rnd, n)
            charmap = list(range(1, n + 1)) + [n, n]
            exact = [(o, ln, str(k)) for k, (o, ln) in enumerate(pairs)]
            loose = []
            if case['s'] % 4 == 0 and n >= 3:
                # the text of two neighbouring source pieces comes out in the opposite order (a macro that swaps
                # its arguments): matches inside one piece are shown as usual, a match across the seam exactly once
                a, b, c = sorted(rnd.sample(range(n + 1), 3))
                perm = list(range(a)) + list(range(b, c)) + list(range(a, b)) + list(range(c, n))
                charmap = [q + 1 for q in perm] + [n, n]
                exact = []
                for k, (o, ln) in enumerate(pairs):
                    if ln >= 1 and o + ln <= n and all(perm[o + i] == perm[o] + i for i in range(ln)):
                        exact.append((perm[o], ln, str(k)))
                    else:
                        loose.append(str(k))
                cnt['direct_with_swapped_pieces'] = 1
            ms = []
            for k, (o, ln) in enumerate(pairs):
                hostile = rnd.choice(['', '<i>&"', '</span>', '\n', '"><script>', "'"])
                ms.append({'offset': o, 'length': ln, 'message': 'MSG#%d %s' % (k, hostile),
                           'replacements': [{'value': '<r>&"' + hostile}],
                           'context': {'text': 'ctx<&>' + hostile, 'offset': 0, 'length': 1},
                           'rule': {'id': 'R<"' + hostile.strip(), 'subId': '&1'}})
            self.v.cmdline.context = ctx
            title, anchor, body, num = genhtml.generate_html(tex_, charmap, [dict(m) for m in ms], 'f.tex')
            pr = check_report(body, tex_, exact, ctx, r'MSG#(\d+)', cnt, loose=loose)
            detail = dict(source=tex_[:3000], matches=pairs, context=case['ctx'])
            if num != len(ms):
                pr = ('count', dict(reported=num))
            if pr:
                detail.update(pr[1])
                detail['html'] = body[:1500]
                return dict(ok=False, nt=True, key=pr[0], cnt=cnt, obs=None, detail=detail)
            if ctx >= 10 ** 6:
                cnt['whole_file_reports'] = 1
            return dict(ok=True, nt=bool(pairs), key=None, cnt=cnt,
                        obs=dict(source=tex.short(tex_, 120), matches=pairs[:6], context=case['ctx']))
        # through the real shell
        files = {}
        plans = []
        names = ['f.tex', 'g<&>.tex', 'h.tex'][:case['files']]
        for name in names:
            src = gen_source(rnd)
            if case['latex']:
                src = 'Text \\textbf{bold} $x$ w1z.\n' + src.replace('\\', '/').replace('%', 'c').replace('$', 'S') \
                    .replace('{', '(').replace('}', ')').replace('#', 'n').replace('&', 'u').replace('~', '-') \
                    .replace('^', 'v').replace('_', '-')
            if rnd.random() < .3 and src.rstrip('\n'):
                src = src.rstrip('\n')           # last line without line end
                cnt['shell_files_without_final_newline'] = 1
            files[name] = src
        # one plan for all calls: offsets relative to each submitted text (clamped by the fake proofreader)
        if case['latex']:
            n0 = min(len(tex.run(s if s.endswith('\n') else s + '\n', lang='en-GB')[0][0]) for s in files.values())
        else:
            n0 = min(len(s) for s in files.values())
        pairs = gen_matches(rnd, max(2, n0 - 1))
        if not case['latex'] and rnd.random() < .5:
            # a match that reaches exactly the end of the (shortest) submitted text, its final line break included
            # (the shell appends one if the file has none)
            n1 = min(len(s) + (0 if s.endswith('\n') else 1) for s in files.values())
            if n1 >= 4:
                pairs.append([n1 - 3, 3])
                pairs.sort()
                cnt['shell_match_up_to_text_end'] = 1
        args = ['--output', 'html', '--context', str(case['ctx'])]
        if not case['latex']:
            args.append('--plain-input')
        r = shellrun.run_shell(args + names, files, {'mode': 'offsets', 'pairs': pairs, 'all_calls': True},
                               workdir=self.tmp)
        if r.timed_out:
            return dict(ok=True, nt=False, key=None, cnt={'timeouts': 1}, obs=None, harness_error='watchdog')
        detail = dict(files={k: v[:1500] for k, v in files.items()}, matches=pairs, context=case['ctx'],
                      stderr=r.err[-600:])
        if r.rc != 0:
            return dict(ok=False, nt=True, key='shell:exit%s' % r.rc, cnt=cnt, obs=None, detail=detail)
        html_text = r.out.decode('utf-8')
        rep = htmlreport.parse(html_text)
        if rep.bad:
            bad = [b for b in rep.bad if not (b[0] == 'attribute' and b[1] == 'a')]
            if bad:
                detail.update(problems=bad[:3], html=html_text[:1500])
                return dict(ok=False, nt=True, key='shell:markup:' + str(bad[0][0]), cnt=cnt, obs=None, detail=detail)
        if not case['latex'] and len(names) == 1:
            tex_ = files[names[0]]
            call = r.calls[0]['text'] if r.calls else ''
            pr = check_report(html_text, tex_, [(min(o, len(tex_)), max(0, min(ln, len(tex_) - min(o, len(tex_)))),
                                                 '0.%d' % k) for k, (o, ln) in enumerate(pairs)] if r.calls else [],
                              case['ctx'] if case['ctx'] >= 0 else int(1e8), r'MSG(\d+\.\d+):', cnt)
            if pr:
                detail.update(pr[1])
                detail['html'] = html_text[:1500]
                return dict(ok=False, nt=True, key='shell:' + pr[0], cnt=cnt, obs=None, detail=detail)
            cnt['shell_reports_fully_checked'] = 1
        elif not case['latex']:
            # several plain-input files: the report has one part per file (separated by <hr><hr>), each is
            # checked completely against its own file with the same context size
            chunks = html_text.split('<hr><hr>\n')
            chunks = [c for c in chunks if '<H3>Index</H3>' not in c] if len(names) > 1 else chunks
            if len(chunks) != len(names):
                detail.update(parts=len(chunks), html=html_text[:1200])
                return dict(ok=False, nt=True, key='shell:file-parts', cnt=cnt, obs=None, detail=detail)
            ncall = 0
            for ci, (name, chunk) in enumerate(zip(names, chunks)):
                tex_ = files[name]
                if tex_.strip():
                    ms = [(min(o, len(tex_)), max(0, min(ln, len(tex_) - min(o, len(tex_)))), '%d.%d' % (ncall, k))
                          for k, (o, ln) in enumerate(pairs)]
                    ncall += 1
                else:
                    ms = []         # a blank file is not submitted to the proofreader
                pr = check_report('<html><body>' + chunk.replace('</body>', '').replace('</html>', '') + '</body></html>'
                                  if '<html>' not in chunk else chunk, tex_, ms,
                                  case['ctx'] if case['ctx'] >= 0 else int(1e8), r'MSG(\d+\.\d+):', cnt)
                if pr:
                    detail.update(pr[1])
                    detail.update(file=name, file_index=ci, html=chunk[:1500])
                    return dict(ok=False, nt=True, key='shell:file%d:%s' % (min(ci, 1), pr[0]), cnt=cnt, obs=None,
                                detail=detail)
            cnt['index_pages'] = 1
            cnt['multi_file_reports_fully_checked'] = 1
        else:
            # several files / LaTeX input: structure, every match id of every call exactly once
            ids = collections.Counter()
            for title, text, table, lineno, style in rep.spans:
                m = re.match(r'MSG(\d+\.\d+):', title or '')
                if m:
                    ids[(m.group(1), rep.tables_kind.get(table))] += 0
                    ids[m.group(1)] = ids.get(m.group(1), 0)
            want = {'%d.%d' % (c, k) for c in range(len(r.calls)) for k in range(len(pairs))}
            got = {k for k in ids if isinstance(k, str)}
            if got != want:
                detail.update(missing=sorted(want - got)[:5], extra=sorted(got - want)[:5])
                return dict(ok=False, nt=True, key='shell:match-set', cnt=cnt, obs=None, detail=detail)
            if len(names) > 1:
                cnt['index_pages'] = 1
        cnt['shell_reports'] = 1
        return dict(ok=True, nt=bool(pairs), key=None, cnt=cnt,
                    obs=dict(files=list(files), matches=pairs[:5], context=case['ctx']))

    def quotas(self, tier):
        return {'fam_direct': 3000, 'rows_checked': 10000, 'matches_in_place': 3000, 'matches_in_overlap_list': 500,
                'matches_split_over_lines': 100, 'whole_file_reports': 300, 'shell_reports': 60,
                'shell_reports_fully_checked': 30, 'index_pages': 10, 'multi_file_reports_fully_checked': 20,
                'shellml_reports': 100, 'shell_match_up_to_text_end': 40, 'direct_with_swapped_pieces': 500, 'matches_with_unordered_positions': 100, 'shellml_own_messages': 300, 'shelltex_repeated_part': 10}


CHECK = C16
