"""C02 - copied text maps to exactly the offset where it stands."""
from .. import tex
from .doccommon import DocCheck


class C02(DocCheck):
    id = 'C02'
    which = 'c02'
    level = 'exploration'
    technique = 'runtime monitor: unique literal words give every copied output character its exact expected offset'
    rule = ('same generated documents as C03; for every aligned output character that the model marks as a copy '
            '(literal word characters in running text, arguments of unknown / declared / user macros, \\verb, '
            'verbatim, \\text/\\mbox in maths, footnotes, captions, headings, items, theorem bodies, tables; '
            'replaced special sequences, accents, German shorthands map to the first character of the sequence) '
            'the map entry must equal the printer-recorded offset. non-trivial = aligned document with >= 10 copy '
            'obligations; distinct = distinct generator parameters')
    level_text = ('Exploration: every character of every unique literal word of thousands of generated documents '
                  'is an exact-position obligation (10^5 - 10^7 obligations per run), in each context the statement '
                  'names and after each kind of preceding construct. Off-by-one errors that depend on the '
                  'construct before a word show up because the words are unique and the printer knows their offsets.')
    level_note = 'Trusted: the printer offsets of the generator and the alignment; documents that do not align (C03 fails) are judged on the aligned prefix only and counted.'
    design_ref = 'DESIGN.md sections 3.2, 4 C02'
    assumptions = ['alignment by unique words (a word identifies its source occurrence)']

    def verdict(self, case, d, t, p, err, a, cnt):
        cnt['copy_obligations'] = a['n_copy']
        for w, st, path in d.words:
            cnt['ctx_' + (path[-1] if path else 'top')] = 1
        if a['c02']:
            tag, det = a['c02'][0]
            key = 'copy@' + tag.split('/')[-1].split(':')[-1]
            return dict(ok=False, nt=True, key=key, cnt=cnt, obs=None,
                        detail=dict(problems=a['c02'][:4], src=d.src, plain=t, map=list(p)))
        return dict(ok=True, nt=a['aligned'] and a['n_copy'] >= 10, key=None, cnt=cnt,
                    obs=dict(src=tex.short(d.src, 200), copy_obligations=a['n_copy']))

    def quotas(self, tier):
        q = super().quotas(tier)
        q.update({'copy_obligations': 100000, 'ctx_verb': 100, 'ctx_verbatim': 30, 'ctx_userarg': 300,
                  'ctx_mathtext': 100, 'ctx_footnote': 100, 'ctx_caption': 100, 'ctx_heading': 100,
                  'ctx_item': 100, 'ctx_theorem': 30, 'ctx_tabular': 30, 'ctx_unkarg': 300, 'ctx_declarg': 300})
        return q


CHECK = C02
