"""C02 - copied text maps to exactly the offset where it stands."""
import collections
import random
import re

from .. import tex
from .doccommon import DocCheck


class C02(DocCheck):
    id = 'C02'
    which = 'c02'
    level = 'exploration'
    technique = 'runtime monitor: unique literal words give every copied output character its exact expected offset'
    rule = ('same generated documents as C03; for every aligned output character that the model marks as a copy '
            '(literal word characters in running text, arguments of unknown / declared / user macros, \\verb, '
            'verbatim, \\text/\\mbox in maths, footnotes, captions, headings, items, theorem bodies, tables; '
            'replaced special sequences, accents, German shorthands map to the first character of the sequence) '
            'the map entry must equal the printer-recorded offset; the white space between two adjacent literal words '
            'must come out unchanged, each character with its own offset. non-trivial = aligned document with >= 10 copy '
            'obligations; distinct = distinct generator parameters')
    level_text = ('Exploration: every character of every unique literal word of thousands of generated documents '
                  'is an exact-position obligation (10^5 - 10^7 obligations per run), in each context the statement '
                  'names and after each kind of preceding construct. Off-by-one errors that depend on the '
                  'construct before a word show up because the words are unique and the printer knows their offsets.')
    level_note = 'Trusted: the printer offsets of the generator and the alignment; documents that do not align (C03 fails) are judged on the aligned prefix only and counted.'
    design_ref = 'DESIGN.md sections 3.2, 4 C02'
    assumptions = ['alignment by unique words (a word identifies its source occurrence)']

    def cases(self, tier, seed, shard, nshards):
        yield from super().cases(tier, seed, shard, nshards)
        # multi-language family: documents with language commands (generator of C12); every character of every
        # part except the language-change placeholders is a copy of the single-language result
        from .. import core
        from .c12 import MAINS
        rnd = core.sub_rng('C02ml', seed, shard)
        for i in range((1600 if tier == 'quick' else 30000) // nshards):
            yield dict(fam='mllang', s=rnd.getrandbits(48), main=rnd.choice(MAINS), T=rnd.randint(0, 5))

    def judge(self, case):
        if case.get('fam') == 'mllang':
            return self.judge_mllang(case)
        return super().judge(case)

    def judge_mllang(self, case):
        from .c12 import G, CHANGE
        rnd = random.Random(case['s'])
        g = G(rnd, case['main'])
        g.w('\\usepackage{babel}\n\\newcommand{\\yopt}[1][yoptd]{}\n')
        g.seq(rnd.randint(1, 6))
        for _ in range(rnd.randint(0, 2)):
            g.probe()
        g.w('\n')
        src = ''.join(g.buf)
        T = case['T']

        def mod(parms):
            parms.ml_continue_thresh = T
        r, err = tex.run(src, ml=True, lang=case['main'], modify_parms=mod)
        (t1, p1), err1 = tex.run(src, lang=case['main'])
        cnt = {'ml_language_documents': 1}
        skip1 = set()
        for m in re.finditer(r'(\w)-\1-\1', t1):
            skip1.update(range(m.start(), m.end()))
        have = set(zip(t1, p1))
        left = collections.Counter((c, q) for k, (c, q) in enumerate(zip(t1, p1)) if k not in skip1)
        # placeholders (language changes, inline formulas: generated text, rotation differs between the two modes)
        holders = r'(\w)-\1-\1'
        detail = dict(src=src, parts={lg: [[p[0], list(p[1])] for p in r[lg]] for lg in r}, single=[t1, list(p1)], T=T)
        nws = 0
        for lg in r:
            for t, p in r[lg]:
                if len(t) != len(p):
                    return dict(ok=False, nt=True, key='copy@ml-length', cnt=cnt, obs=None, detail=detail)
                skip, border = set(), set()
                for m in re.finditer(holders, t):
                    skip.update(range(m.start(), m.end()))
                    border.update((m.start() - 1, m.end()))
                    cnt['ml_placeholders'] = cnt.get('ml_placeholders', 0) + 1
                for k, (c, q) in enumerate(zip(t, p)):
                    if k in skip:
                        continue
                    if c.isspace():
                        # the white space kept on both sides of a placeholder is the border white space of the
                        # insertion (it stays in the insertion's own part, too): same character, same offset as in
                        # the single-language result. Other white space (separators of parts and flows) is generated.
                        if k in border and not (c == '\n' and (t[k - 1:k] == '\n' or t[k + 1:k + 2] in ('\n', ''))):
                            # (a run of line breaks / the closing line break is the generated separator of a flow)
                            nws += 1
                            if (c, q) not in have:
                                detail.update(language=lg, index=k, char=c, pos=q, source_there=src[q - 1:q + 5])
                                return dict(ok=False, nt=True, key='copy@ml-whitespace', cnt=cnt, obs=None, detail=detail)
                        continue
                    if left[(c, q)] <= 0:
                        detail.update(language=lg, index=k, char=c, pos=q, source_there=src[q - 1:q + 5])
                        return dict(ok=False, nt=True, key='copy@ml-char', cnt=cnt, obs=None, detail=detail)
                    left[(c, q)] -= 1
        cnt['ml_whitespace_obligations'] = nws
        return dict(ok=True, nt=len(r) > 1, key=None, cnt=cnt, obs=dict(src=tex.short(src, 200), languages=sorted(r)))

    def verdict(self, case, d, t, p, err, a, cnt):
        cnt['copy_obligations'] = a['n_copy']
        cnt['whitespace_copy_obligations'] = a['n_ws']
        for w, st, path in d.words:
            cnt['ctx_' + (path[-1] if path else 'top')] = 1
        if a['c02']:
            tag, det = a['c02'][0]
            key = 'copy@' + tag.split('/')[-1].split(':')[-1]
            return dict(ok=False, nt=True, key=key, cnt=cnt, obs=None,
                        detail=dict(problems=a['c02'][:4], src=d.src, plain=t, map=list(p)))
        return dict(ok=True, nt=a['aligned'] and a['n_copy'] >= 10, key=None, cnt=cnt,
                    obs=dict(src=tex.short(d.src, 200), copy_obligations=a['n_copy']))

    def quotas(self, tier):
        q = super().quotas(tier)
        q.update({'ml_language_documents': 1000, 'ml_placeholders': 300, 'ml_whitespace_obligations': 300, 'copy_obligations': 100000, 'whitespace_copy_obligations': 5000, 'ctx_verb': 100, 'ctx_verbatim': 30, 'ctx_userarg': 300,
                  'ctx_mathtext': 100, 'ctx_footnote': 100, 'ctx_caption': 100, 'ctx_heading': 100,
                  'ctx_item': 100, 'ctx_theorem': 30, 'ctx_tabular': 30, 'ctx_unkarg': 300, 'ctx_declarg': 300})
        return q


CHECK = C02
