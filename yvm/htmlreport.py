"""Reader for the HTML report of yalafi.shell (html.parser based, independent of genhtml)."""
import collections
from html.parser import HTMLParser

ALLOWED = {'html': set(), 'head': set(), 'meta': {'charset'}, 'body': set(),
           'a': {'id', 'href', 'target', 'style'}, 'h3': set(), 'h2': set(), 'table': {'cellspacing'}, 'tr': set(),
           'td': {'style', 'align', 'valign'}, 'span': {'style', 'title'}, 'br': set(), 'ul': set(), 'li': set(),
           'hr': set()}


class Report(HTMLParser):
    """collects: rows = [(table index, line number text, cell text, [span ids in the cell])],
    spans = [(title, text, table index, row line number)], tags counter, bad = list of markup problems"""

    def __init__(self):
        super().__init__(convert_charrefs=True)
        self.rows = []
        self.spans = []
        self.tags = collections.Counter()
        self.bad = []
        self.table = 0
        self.in_tr = False
        self.td = 0
        self.cur = None
        self.span = None
        self.stack = []
        self.tables_kind = {}       # table index -> 'main' | 'overlap' (by preceding heading)
        self.last_h3 = ''
        self.in_h3 = False
        self.anchors = []

    def handle_starttag(self, tag, attrs):
        self.tags[tag] += 1
        if tag not in ALLOWED:
            self.bad.append(('tag', tag, attrs))
        else:
            for k, v in attrs:
                if k not in ALLOWED[tag]:
                    self.bad.append(('attribute', tag, k, v))
        if tag not in ('br', 'meta', 'hr'):
            self.stack.append(tag)
        if tag == 'h3':
            self.in_h3 = True
            self.last_h3 = ''
        elif tag == 'table':
            self.table += 1
            self.tables_kind[self.table] = 'overlap' if 'overlapping message' in self.last_h3 else 'main'
        elif tag == 'tr':
            self.in_tr = True
            self.td = 0
            self.cur = ['', '', []]
        elif tag == 'td':
            self.td += 1
        elif tag == 'span':
            if self.span is not None:
                self.bad.append(('nested-span',))
            self.span = [dict(attrs).get('title'), '', self.table, None, dict(attrs).get('style')]
        elif tag == 'br':
            if self.cur is not None and self.td == 2:
                self.cur[1] += '\n'
            if self.span is not None:
                self.bad.append(('br-inside-span',))
        elif tag == 'a':
            self.anchors.append(dict(attrs))

    def handle_endtag(self, tag):
        if tag in ('br', 'meta', 'hr'):
            return
        if not self.stack or self.stack[-1] != tag:
            self.bad.append(('nesting', tag, list(self.stack[-3:])))
            if tag in self.stack:
                while self.stack and self.stack.pop() != tag:
                    pass
        else:
            self.stack.pop()
        if tag == 'h3':
            self.in_h3 = False
        elif tag == 'tr' and self.cur is not None:
            self.rows.append((self.table, self.cur[0], self.cur[1], self.cur[2]))
            self.cur = None
            self.in_tr = False
        elif tag == 'span' and self.span is not None:
            if self.cur is not None:
                self.span[3] = self.cur[0]
                self.cur[2].append(self.span[0])
            self.spans.append(tuple(self.span))
            self.span = None

    def handle_data(self, d):
        if self.in_h3:
            self.last_h3 += d
        if self.cur is not None and self.td in (1, 2):
            self.cur[self.td - 1] += d
        if self.span is not None:
            self.span[1] += d


def parse(html_text):
    r = Report()
    r.feed(html_text)
    r.close()
    if r.stack:
        r.bad.append(('unclosed', list(r.stack)))
    return r


def norm(s):
    """the report shows blanks as en-spaces and tabs as 8 blanks"""
    return s.replace('\u2002', ' ')
