"""Core of the monitor framework: check protocol, shard workers, aggregation,
three-valued verdicts, evidence and known-findings handling.

A check is a class with
    id, level, rule, assumptions, technique
    cases(tier, seed, shard, nshards)  -> iterator of JSON-serialisable cases
    judge(case) -> dict(ok, nt, key, detail, cnt, obs)
        ok   : oracle verdict for this execution of the real code
        nt   : the case was non-trivial for the property (monitor really evaluated
               at least one obligation)
        key  : mechanism key of a violation (structure of the witness, no random values)
        cnt  : counters (obligations, construct kinds, reach probes ...)
        obs  : short observation kept for the evidence samples
    quotas(tier) -> {counter: minimum}; an unmet quota makes the run inconclusive
"""
import faulthandler
import fnmatch
import hashlib
import json
import os
import random
import shutil
import subprocess
import sys
import tempfile
import time
import traceback

from . import env

MAX_VIOL_PER_SHARD = 40
CASE_CPU_SECONDS = 40     # per-case CPU-time backstop (process virtual time, independent of machine load)
MAX_VIOL_PRINT = 12


def case_hash(case):
    s = json.dumps(case, sort_keys=True, ensure_ascii=True, default=str)
    return hashlib.sha1(s.encode()).hexdigest()[:16]


def sub_rng(*parts):
    """deterministic random generator from a tuple of seeds / names"""
    h = hashlib.sha256(repr(parts).encode()).digest()
    return random.Random(int.from_bytes(h[:8], 'big'))


class Check:
    id = 'C00'
    level = 'exploration'
    technique = 'runtime monitor'
    rule = ''
    assumptions = []
    level_text = ''
    level_note = ''
    design_ref = 'DESIGN.md section 4'
    nshards_quick = 32
    nshards_thorough = 96
    budget_quick = 450      # seconds of wall clock per shard (cap, not target; a quick run takes 10-60 s on an idle machine)
    budget_thorough = 3000

    def setup(self, tier):
        """called once in every worker before the first case"""

    def teardown(self):
        pass

    def cases(self, tier, seed, shard, nshards):
        raise NotImplementedError

    def judge(self, case):
        raise NotImplementedError

    def quotas(self, tier):
        return {}

    def extra_evidence(self, counters, tier):
        return {}


def exc_origin(tb):
    """'repo' if the innermost frame of the traceback is YaLafi code, else 'harness'"""
    frames = traceback.extract_tb(tb)
    if not frames:
        return 'harness', '?'
    def real(name):
        # '<frozen codecs>', '<string>' ... are not files (realpath would resolve them relative to the cwd)
        return name if name.startswith('<') else os.path.realpath(name)
    f = frames[-1]
    fn = real(f.filename)
    where = '%s:%s' % (os.path.basename(f.filename), f.name)
    if fn.startswith(os.path.realpath(env.REPO) + os.sep):
        return 'repo', where
    # innermost frame in stdlib but called from repo code (e.g. re, json)?
    for f in reversed(frames):
        fn = real(f.filename)
        if fn.startswith(os.path.realpath(env.VERIF) + os.sep):
            return 'harness', where
        if fn.startswith(os.path.realpath(env.REPO) + os.sep):
            return 'repo', '%s:%s' % (os.path.basename(f.filename), f.name)
    return 'harness', where


def judge_guarded(check, case):
    """run judge; an exception inside YaLafi code is a violation (no result was
    produced for this input), one inside the harness is a harness error"""
    from . import probe
    try:
        with probe.CpuGuard(CASE_CPU_SECONDS):
            return check.judge(case)
    except probe.CpuBudgetExceeded as e:
        origin, where = exc_origin(e.__traceback__)
        tbs = ''.join(traceback.format_exception(type(e), e, e.__traceback__))[-3000:]
        return dict(ok=False, nt=True, key='cpu-budget-exceeded@%s' % where,
                    detail={'traceback': tbs, 'cpu_seconds': CASE_CPU_SECONDS},
                    cnt={'cpu_budget_exceeded': 1}, obs=None)
    except (Exception, SystemExit, RecursionError) as e:
        origin, where = exc_origin(e.__traceback__)
        tbs = ''.join(traceback.format_exception(type(e), e, e.__traceback__))[-3000:]
        if isinstance(e, SystemExit) or origin == 'repo':
            return dict(ok=False, nt=True,
                        key='exception:%s@%s' % (type(e).__name__, where),
                        detail={'traceback': tbs}, cnt={'exceptions_in_repo_code': 1}, obs=None)
        return dict(ok=True, nt=False, key=None, harness_error=tbs, cnt={'harness_errors': 1},
                    obs=None)


def worker_main(check, tier, seed, shard, nshards, out_path):
    t0 = time.time()
    budget = check.budget_quick if tier == 'quick' else check.budget_thorough
    faulthandler.enable()
    faulthandler.dump_traceback_later(budget + 120, exit=True)
    counters = {}
    hashes = set()
    viols = []
    samples = []
    herr = []
    n = 0
    timed_out = False
    check.setup(tier)
    try:
        for case in check.cases(tier, seed, shard, nshards):
            if time.time() - t0 > budget:
                timed_out = True
                break
            r = judge_guarded(check, case)
            n += 1
            for k, v in (r.get('cnt') or {}).items():
                counters[k] = max(counters.get(k, 0), v) if k.startswith('max_') else counters.get(k, 0) + v
            if r.get('harness_error'):
                if len(herr) < 3:
                    herr.append({'case': case, 'error': r['harness_error']})
                continue
            if r.get('nt'):
                hashes.add(case_hash(case))
                if len(samples) < 2 and r.get('obs') is not None and r['ok']:
                    samples.append({'case': case, 'observed': r['obs']})
            if not r['ok']:
                counters['violating_executions'] = counters.get('violating_executions', 0) + 1
                kk = r.get('key') or 'unclassified'
                counters['viol:' + kk] = counters.get('viol:' + kk, 0) + 1
                # keep the first (usually smallest) witnesses per key
                if sum(1 for v in viols if v['key'] == kk) < 3 and len(viols) < MAX_VIOL_PER_SHARD:
                    viols.append({'key': kk, 'case': case, 'detail': r.get('detail')})
    finally:
        check.teardown()
    faulthandler.cancel_dump_traceback_later()
    res = dict(shard=shard, evaluations=n, counters=counters, hashes=sorted(hashes),
               violations=viols, samples=samples, harness_errors=herr,
               timed_out=timed_out, wall=time.time() - t0)
    with open(out_path, 'w') as f:
        json.dump(res, f)


def load_known(prop):
    p = os.path.join(env.VERIF, 'known_findings.json')
    try:
        with open(p) as f:
            data = json.load(f)
    except FileNotFoundError:
        return []
    return [e for e in data.get('findings', []) if e.get('property') == prop]


def match_known(known, key):
    for e in known:
        if e.get('status') != 'open':
            continue
        if fnmatch.fnmatchcase(key, e['key']):
            return e
    return None


def run_check(check, tier, seed, jobs=None, only_shard=None):
    t0 = time.time()
    jobs = jobs or int(os.environ.get('YVM_JOBS', '0')) or os.cpu_count() or 4
    nshards = check.nshards_quick if tier == 'quick' else check.nshards_thorough
    budget = check.budget_quick if tier == 'quick' else check.budget_thorough
    tmp = tempfile.mkdtemp(prefix='yvm_%s_' % check.id)
    pending = list(range(nshards)) if only_shard is None else [only_shard]
    running = {}
    results = []
    dead = []
    try:
        while pending or running:
            while pending and len(running) < jobs:
                sh = pending.pop(0)
                outp = os.path.join(tmp, 'shard%d.json' % sh)
                errp = os.path.join(tmp, 'shard%d.err' % sh)
                cmd = [env.PY, '-X', 'dev' if os.environ.get('YVM_DEV') else 'faulthandler',
                       '-m', 'yvm', 'worker', check.id, '--tier', tier,
                       '--seed', str(seed), '--shard', str(sh), '--nshards', str(nshards),
                       '--out', outp]
                p = subprocess.Popen(cmd, cwd=env.VERIF, env=env.child_env(),
                                     stdout=subprocess.DEVNULL, stderr=open(errp, 'w'))
                running[sh] = (p, outp, errp, time.time())
            time.sleep(0.02)
            for sh in list(running):
                p, outp, errp, ts = running[sh]
                rc = p.poll()
                if rc is None:
                    if time.time() - ts > budget + 300:
                        p.kill()
                        p.wait()
                        dead.append((sh, 'watchdog: worker killed after %ds' % (budget + 300), ''))
                        del running[sh]
                    continue
                del running[sh]
                if rc != 0 or not os.path.exists(outp):
                    try:
                        err = open(errp).read()[-2000:]
                    except OSError:
                        err = ''
                    dead.append((sh, 'worker exit status %s' % rc, err))
                    continue
                with open(outp) as f:
                    results.append(json.load(f))
    finally:
        for sh in running:
            running[sh][0].kill()
        shutil.rmtree(tmp, ignore_errors=True)

    # ---- aggregate
    counters = {}
    hashes = set()
    viols = []
    samples = []
    herr = []
    evaluations = 0
    timed_out = 0
    for r in sorted(results, key=lambda r: r['shard']):
        evaluations += r['evaluations']
        for k, v in r['counters'].items():
            counters[k] = max(counters.get(k, 0), v) if k.startswith('max_') else counters.get(k, 0) + v
        hashes.update(r['hashes'])
        viols += r['violations']
        if len(samples) < 4:
            samples += r['samples'][:1]
        herr += r['harness_errors']
        timed_out += bool(r['timed_out'])

    known = load_known(check.id)
    by_key = {}
    for v in viols:
        by_key.setdefault(v['key'], []).append(v)
    lines = []
    new_keys = []
    known_seen = []
    rdir = os.path.join(env.VERIF, 'replays', check.id)
    for key in sorted(by_key):
        e = match_known(known, key)
        if e:
            known_seen.append((key, e))
            continue
        new_keys.append(key)
    for key, e in known_seen:
        lines.append('KNOWN-FINDING: property=%s %s [key=%s, %d executions]'
                     % (check.id, e.get('what', ''), key, counters.get('viol:' + key, 0)))
    for key in new_keys[:MAX_VIOL_PRINT]:
        os.makedirs(rdir, exist_ok=True)
        v = min(by_key[key], key=lambda v: len(json.dumps(v['case'], default=str)))
        path = os.path.join(rdir, '%s.json' % case_hash(v['case']))
        with open(path, 'w') as f:
            json.dump({'property': check.id, 'key': key, 'case': v['case'],
                       'detail': v['detail'], 'tier': tier, 'seed': seed}, f, indent=1, default=str)
        lines.append('VIOLATION property=%s replay=%s key=%s' % (check.id, path, key))

    reasons = []
    if dead:
        reasons.append('%d worker(s) died: %s' % (len(dead), dead[0][1]))
    if herr:
        reasons.append('%d harness error(s)' % counters.get('harness_errors', len(herr)))
    if timed_out:
        reasons.append('%d shard(s) hit the time cap' % timed_out)
    unmet = {}
    if only_shard is None:
        for k, q in check.quotas(tier).items():
            if counters.get(k, 0) < q:
                unmet[k] = (counters.get(k, 0), q)
        if unmet:
            reasons.append('quota not met: ' + ', '.join('%s=%d<%d' % (k, a, b)
                                                        for k, (a, b) in sorted(unmet.items())))
        if len(hashes) < 2:
            reasons.append('fewer than 2 non-trivial cases')

    wall = time.time() - t0
    n_unknown = sum(counters.get('viol:' + k, 0) for k in new_keys)
    if new_keys:
        verdict = 'violated'
    elif reasons:
        verdict = 'inconclusive'
    else:
        verdict = 'held'

    cov = dict(evaluations=evaluations, distinct_nontrivial=len(hashes), rule=check.rule,
               samples=samples or [{'note': 'no sample recorded'}],
               counters={k: v for k, v in sorted(counters.items())},
               quotas=check.quotas(tier), verdict=verdict,
               known_findings_seen=[k for k, _ in known_seen],
               shards=nshards, jobs=jobs)
    if reasons:
        cov['inconclusive_reasons'] = reasons
    cov.update(check.extra_evidence(counters, tier) or {})
    evidence = dict(property_id=check.id, tier=tier, seed=seed, level=check.level,
                    coverage=cov, assumptions=list(check.assumptions), wall_s=round(wall, 2),
                    violations=n_unknown)
    if only_shard is None and os.path.realpath(env.REPO) == '/repo':
        # (runs against a scratch copy, YVM_REPO=..., are development aids: no evidence written)
        os.makedirs(os.path.join(env.VERIF, 'evidence'), exist_ok=True)
        with open(os.path.join(env.VERIF, 'evidence', check.id + '.json'), 'w') as f:
            json.dump(evidence, f, indent=1, default=str)

    for ln in lines:
        print(ln)
    if herr:
        print('HARNESS-ERROR (first):', json.dumps(herr[0], default=str)[:3000])
    for sh, why, err in dead[:3]:
        print('WORKER-DIED shard=%d %s\n%s' % (sh, why, err))
    if verdict == 'inconclusive':
        print('INCONCLUSIVE property=%s reason=%s' % (check.id, '; '.join(reasons)))
    interesting = {k: v for k, v in counters.items() if not k.startswith('viol:')}
    print('%s property=%s tier=%s seed=%d evaluations=%d distinct_nontrivial=%d wall=%.1fs'
          % (verdict.upper(), check.id, tier, seed, evaluations, len(hashes), wall))
    print('counters: ' + json.dumps(interesting, sort_keys=True))
    return {'violated': 1, 'inconclusive': 2, 'held': 0}[verdict]


def replay(check, path):
    with open(path) as f:
        data = json.load(f)
    case = data['case'] if 'case' in data else data
    check.setup('quick')
    try:
        r = judge_guarded(check, case)
    finally:
        check.teardown()
    print(json.dumps({'ok': r['ok'], 'key': r.get('key'), 'detail': r.get('detail'),
                      'harness_error': r.get('harness_error')}, indent=1, default=str))
    if r.get('harness_error'):
        return 2
    if not r['ok']:
        e = match_known(load_known(check.id), r.get('key') or 'unclassified')
        if e:
            print('KNOWN-FINDING: property=%s %s' % (check.id, e.get('what', '')))
            return 0
        print('VIOLATION property=%s replay=%s' % (check.id, path))
        return 1
    return 0
