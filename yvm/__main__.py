import argparse
import os
import sys

from . import env, core, checks


def main():
    exe = sys.executable
    if sys.version_info < (3, 12) and os.path.exists('/venv/bin/python') and not os.environ.get('YVM_NO_REEXEC'):
        # the step clock needs sys.monitoring (3.12); the repository's own interpreter is /venv/bin/python
        exe = '/venv/bin/python'
    if os.environ.get('PYTHONHASHSEED') != '0' or exe != sys.executable:
        # deterministic set / dict-of-str iteration in generators, also for replays
        os.environ['PYTHONHASHSEED'] = '0'
        os.environ['YVM_NO_REEXEC'] = '1'
        os.execv(exe, [exe, '-m', 'yvm'] + sys.argv[1:])
    ap = argparse.ArgumentParser(prog='yvm')
    ap.add_argument('cmd')
    ap.add_argument('rest', nargs='*')
    ap.add_argument('--tier', default=os.environ.get('VERIF_TIER') or 'quick',
                    choices=['quick', 'thorough'])
    ap.add_argument('--seed', type=int, default=None)
    ap.add_argument('--shard', type=int)
    ap.add_argument('--nshards', type=int)
    ap.add_argument('--out')
    ap.add_argument('--replay')
    ap.add_argument('--jobs', type=int)
    a = ap.parse_args()
    seed = a.seed
    if seed is None:
        try:
            seed = int(os.environ.get('VERIF_SEED', '0'))
        except ValueError:
            seed = 0
    env.import_yalafi()
    if a.cmd == 'worker':
        chk = checks.get(a.rest[0])
        core.worker_main(chk, a.tier, seed, a.shard, a.nshards, a.out)
        return 0
    chk = checks.get(a.cmd)
    if a.replay:
        return core.replay(chk, a.replay)
    return core.run_check(chk, a.tier, seed, jobs=a.jobs, only_shard=a.shard)


sys.exit(main())
